// Verification harness for steux/cc6502: batch drivers on the public API (plus hooks H1/H2).
//
//   vharness compile <cases.ndjson> <obs.ndjson> [--from N] [--dir D]
//   vharness cpp     <cases.ndjson> <obs.ndjson> [--from N] [--dir D]
//   vharness asmapi  <cases.ndjson> <obs.ndjson> [--from N]
//
// One observation line per (case, variant), flushed as soon as it is known.  Observations go to a
// file, never to stdout (the library prints warnings with println!).  A panic of the code under
// test is an observation ("panic"); a hang is an observation ("timeout", after which the process
// exits with status 3 so that the driver restarts it behind the offending case); a hard abort
// (stack overflow) kills the process and is recognised by the driver from the missing line.
use cc6502::assemble::{AsmInstruction, AsmMnemonic, AssemblyCode};
use cc6502::compile::*;
use cc6502::error::Error;
use cc6502::generate::*;
use cc6502::Args;
use clap::Parser;
use serde_json::{json, Value};
use std::cell::RefCell;
use std::io::{BufRead, Write};
use std::sync::mpsc;
use std::sync::Mutex;
use std::time::Duration;

thread_local! {
    static CFG: RefCell<Value> = RefCell::new(json!({}));
}
static LAST_PANIC: Mutex<String> = Mutex::new(String::new());

fn lines_json(c: &AssemblyCode) -> Vec<Value> {
    c.verif_lines()
        .into_iter()
        .map(|(k, mn, s, nb, cy, cya, prot)| match k {
            "instr" => json!({"k": "i", "mn": mn, "op": s, "nb": nb, "cy": cy, "cya": cya, "prot": prot}),
            "label" => json!({"k": "l", "name": s}),
            "inline" => json!({"k": "a", "text": s, "nb": nb}),
            "comment" => json!({"k": "c", "text": s}),
            _ => json!({"k": "d"}),
        })
        .collect()
}

fn vval(v: &VariableValue) -> Value {
    match v {
        VariableValue::Int(i) => json!({"int": i}),
        VariableValue::LowPtr((s, o)) => json!({"lo": s, "off": o}),
        VariableValue::HiPtr((s, o)) => json!({"hi": s, "off": o}),
    }
}

fn builder(cs: &CompilerState, writer: &mut dyn Write, args: &Args) -> Result<(), Error> {
    let cfg = CFG.with(|c| c.borrow().clone());
    let scheme: String = cfg["scheme"].as_str().unwrap_or("4K").to_string();
    let scheme_static: &'static str = Box::leak(scheme.into_boxed_str());
    let mut sink: Vec<u8> = Vec::new();
    let mut g = GeneratorState::new(cs, &mut sink, args.insert_code, args.warnings.clone(), scheme_static);
    // Generic part of the reference builder (tests/build.rs): generate, optimise iff -O>0, repair branches.
    for f in cs.sorted_functions().iter() {
        if f.1.code.is_some() {
            g.current_bank = f.1.bank;
            g.local_label_counter_for = 0;
            g.local_label_counter_if = 0;
            g.functions_code.insert(f.0.clone(), AssemblyCode::new());
            g.current_function = Some(f.0.clone());
            g.generate_statement(f.1.code.as_ref().unwrap())?;
            g.current_function = None;
            if args.optimization_level > 0 {
                g.optimize_function(f.0);
            }
            g.check_branches(f.0);
        }
    }
    g.compute_functions_actually_in_use()?;
    let mut vars = Vec::new();
    for v in cs.sorted_variables().iter() {
        let def = match &v.1.def {
            VariableDefinition::None => json!(null),
            VariableDefinition::Value(x) => json!({"value": vval(x)}),
            VariableDefinition::Array(a) => json!({"array": a.iter().map(vval).collect::<Vec<_>>()}),
            VariableDefinition::ArrayOfPointers(a) => {
                json!({"ptrs": a.iter().map(|(s, o)| json!([s, o])).collect::<Vec<_>>()})
            }
        };
        vars.push(json!({"name": v.0, "type": format!("{:?}", v.1.var_type), "mem": format!("{:?}", v.1.memory),
            "size": v.1.size, "const": v.1.var_const, "signed": v.1.signed, "def": def, "global": v.1.global,
            "align": v.1.alignment}));
    }
    let mut funcs = Vec::new();
    for f in cs.sorted_functions().iter() {
        let mut fj = json!({"name": f.0, "inline": f.1.inline, "bank": f.1.bank, "interrupt": f.1.interrupt,
            "defined": f.1.code.is_some(), "locals": f.1.local_variables});
        if let Some(c) = g.functions_code.get(f.0) {
            fj["size"] = json!(c.size_bytes());
            fj["lines"] = json!(lines_json(c));
            if cfg["text"].as_bool().unwrap_or(false) {
                let mut buf = Vec::new();
                c.write(&mut buf, args.insert_code)?;
                fj["text"] = json!(String::from_utf8_lossy(&buf).to_string());
                // both renderings of the writer: plain and with cycle annotations
                let mut b0 = Vec::new();
                c.write(&mut b0, false)?;
                fj["text_plain"] = json!(String::from_utf8_lossy(&b0).to_string());
                let mut b1 = Vec::new();
                c.write(&mut b1, true)?;
                fj["text_cycles"] = json!(String::from_utf8_lossy(&b1).to_string());
            }
        }
        funcs.push(fj);
    }
    let mut inuse: Vec<_> = g.functions_actually_in_use.iter().cloned().collect();
    inuse.sort();
    let mut out = json!({"vars": vars, "funcs": funcs, "tree": g.functions_call_tree, "inuse": inuse});
    if cfg["pre"].as_bool().unwrap_or(false) {
        out["pre"] = json!(cs.preprocessed_utf8);
        out["mapped"] = json!(cs
            .mapped_lines
            .iter()
            .map(|l| json!([l.0.to_string(), l.1, l.2.as_ref().map(|i| json!([i.0.to_string(), i.1]))]))
            .collect::<Vec<_>>());
        out["literals"] = json!(cs.context.literal_strings);
    }
    if let Some(q) = cfg["macros"].as_array() {
        let mut m = serde_json::Map::new();
        for n in q {
            let n = n.as_str().unwrap();
            m.insert(n.to_string(), json!(cs.context.get_macro(n)));
        }
        out["macros"] = Value::Object(m);
    }
    writer.write_all(out.to_string().as_bytes())?;
    Ok(())
}

fn err_json(e: &Error) -> Value {
    match e {
        Error::Io(x) => json!({"kind": "io", "msg": x.to_string()}),
        Error::Syntax { filename, included_in, line, msg } => {
            json!({"kind": "syntax", "file": filename, "line": line, "incl": included_in, "msg": msg})
        }
        Error::Compiler { filename, included_in, line, msg } => {
            json!({"kind": "compiler", "file": filename, "line": line, "incl": included_in, "msg": msg})
        }
        Error::Unimplemented { feature } => json!({"kind": "unimplemented", "msg": feature}),
        Error::Configuration { error } => json!({"kind": "configuration", "msg": error}),
    }
}

fn with_deadline<F: FnOnce() -> Value + Send + 'static>(ms: u64, f: F) -> Value {
    if ms == 0 {
        // same thread, no deadline: consecutive compilations share whatever per-thread state the library keeps (C05)
        return match std::panic::catch_unwind(std::panic::AssertUnwindSafe(f)) {
            Ok(v) => v,
            Err(_) => json!({"status": "panic", "panic": LAST_PANIC.lock().unwrap().clone()}),
        };
    }
    let (tx, rx) = mpsc::channel();
    std::thread::Builder::new()
        .stack_size(8 << 20)
        .spawn(move || {
            let r = std::panic::catch_unwind(std::panic::AssertUnwindSafe(f));
            let v = match r {
                Ok(v) => v,
                Err(_) => json!({"status": "panic", "panic": LAST_PANIC.lock().unwrap().clone()}),
            };
            let _ = tx.send(v);
        })
        .unwrap();
    match rx.recv_timeout(Duration::from_millis(ms)) {
        Ok(v) => v,
        Err(mpsc::RecvTimeoutError::Timeout) => json!({"status": "timeout"}),
        Err(_) => json!({"status": "panic", "panic": "worker thread died"}),
    }
}

fn write_files(dir: &str, id: &str, files: &Value) -> String {
    let d = format!("{}/{}", dir, id);
    if let Some(m) = files.as_object() {
        std::fs::create_dir_all(&d).unwrap();
        for (k, v) in m {
            std::fs::write(format!("{}/{}", d, k), v.as_str().unwrap().as_bytes()).unwrap();
        }
    }
    d
}

fn compile_one(src: String, argv: Vec<String>, cfg: Value, deadline: u64) -> Value {
    with_deadline(deadline, move || {
        CFG.with(|c| *c.borrow_mut() = cfg);
        let mut a = vec!["cc6502".to_string()];
        a.extend(argv);
        let args = match Args::try_parse_from(a) {
            Ok(a) => a,
            Err(e) => return json!({"status": "badargs", "msg": e.to_string()}),
        };
        // hook H3: the places where the generator relied on its belief about the flags (only when the case asks for them)
        #[cfg(cc6502_verif_flags)]
        let want_uses = CFG.with(|c| c.borrow()["flaguses"].as_bool().unwrap_or(false));
        #[cfg(cc6502_verif_flags)]
        if want_uses {
            cc6502::generate::verif_flags::LOG.with(|l| *l.borrow_mut() = Some(Vec::new()));
        }
        let mut out = Vec::new();
        let r = compile(src.as_bytes(), &mut out, &args, builder);
        #[cfg(cc6502_verif_flags)]
        let uses: Option<Vec<Value>> = if want_uses {
            Some(cc6502::generate::verif_flags::LOG.with(|l| l.borrow_mut().take().unwrap_or_default())
                .into_iter()
                .map(|u| json!({"fn": u.function, "belief": u.belief,
                    "code": u.code.iter().map(|l| json!({"k": l.0, "mn": l.1, "op": l.2})).collect::<Vec<Value>>()}))
                .collect())
        } else {
            None
        };
        #[cfg(not(cc6502_verif_flags))]
        let uses: Option<Vec<Value>> = None;
        match r {
            Ok(()) => {
                let mut o: Value = serde_json::from_slice(&out).unwrap_or(json!({}));
                o["status"] = json!("ok");
                if let Some(u) = uses {
                    o["flaguses"] = json!(u);
                }
                o
            }
            Err(e) => json!({"status": "err", "err": err_json(&e), "display": e.to_string()}),
        }
    })
}

fn cpp_one(src: String, file: String, defines: Vec<String>, incdirs: Vec<String>, query: Vec<String>, trace: bool, deadline: u64) -> Value {
    with_deadline(deadline, move || {
        #[cfg(cc6502_verif_trace)]
        if trace {
            cc6502::verif::LOG.with(|l| *l.borrow_mut() = Some(Vec::new()));
        }
        let r = cc6502::verif::preprocess(&src, &file, &defines, &incdirs, &query);
        #[cfg(cc6502_verif_trace)]
        let ev: Vec<Value> = if trace {
            cc6502::verif::LOG.with(|l| l.borrow_mut().take().unwrap_or_default())
                .into_iter()
                .map(|e| json!({"file": e.file, "first": e.first_line, "line": e.line, "kind": e.kind, "before": e.before,
                    "after": e.after, "depth": e.depth, "emitted": e.emitted, "incomment": e.in_comment}))
                .collect()
        } else {
            Vec::new()
        };
        #[cfg(not(cc6502_verif_trace))]
        let ev: Vec<Value> = Vec::new();
        let mut o = match r {
            Ok(p) => {
                let mut m = serde_json::Map::new();
                for (k, v) in p.macros {
                    m.insert(k, json!(v));
                }
                json!({"status": "ok", "text": p.text, "mapped": p.mapped_lines, "literals": p.literal_strings, "macros": m})
            }
            Err(e) => json!({"status": "err", "err": err_json(&e)}),
        };
        if trace && cfg!(cc6502_verif_trace) {
            o["events"] = json!(ev);
        }
        o
    })
}

fn mnemonic(s: &str) -> Option<AsmMnemonic> {
    use AsmMnemonic::*;
    Some(match s {
        "LDA" => LDA, "LDX" => LDX, "LDY" => LDY, "STA" => STA, "STX" => STX, "STY" => STY, "TAX" => TAX,
        "TAY" => TAY, "TXA" => TXA, "TYA" => TYA, "ADC" => ADC, "SBC" => SBC, "EOR" => EOR, "AND" => AND,
        "ORA" => ORA, "LSR" => LSR, "ASL" => ASL, "ROL" => ROL, "ROR" => ROR, "CLC" => CLC, "SEC" => SEC,
        "CMP" => CMP, "CPX" => CPX, "CPY" => CPY, "BCC" => BCC, "BCS" => BCS, "BEQ" => BEQ, "BMI" => BMI,
        "BNE" => BNE, "BPL" => BPL, "INC" => INC, "INX" => INX, "INY" => INY, "DEC" => DEC, "DEX" => DEX,
        "DEY" => DEY, "JMP" => JMP, "JSR" => JSR, "RTS" => RTS, "RTI" => RTI, "PHA" => PHA, "PLA" => PLA,
        "PHP" => PHP, "PLP" => PLP, "NOP" => NOP,
        _ => return None,
    })
}

// Drive AssemblyCode directly: {"lines":[{"k":"i","mn":..,"op":..,"nb":..,"cy":..,"prot":..}|{"k":"l","name":..}|
// {"k":"a","text":..,"nb":..}|{"k":"c","text":..}], "ops":["optimize","check_branches"]}
fn asm_add_lines(c: &mut AssemblyCode, lines: &Value) {
    for l in lines.as_array().unwrap() {
        match l["k"].as_str().unwrap() {
            "i" => c.append_asm(AsmInstruction {
                mnemonic: mnemonic(l["mn"].as_str().unwrap()).expect("mnemonic"),
                dasm_operand: l["op"].as_str().unwrap_or("").to_string(),
                cycles: l["cy"].as_u64().unwrap_or(2) as u32,
                cycles_alt: l["cya"].as_u64().map(|x| x as u32),
                nb_bytes: l["nb"].as_u64().unwrap() as u32,
                protected: l["prot"].as_bool().unwrap_or(false),
            }),
            "l" => c.append_label(l["name"].as_str().unwrap().to_string()),
            "a" => c.append_inline(l["text"].as_str().unwrap().to_string(), l["nb"].as_u64().map(|x| x as u32)),
            "c" => c.append_comment(l["text"].as_str().unwrap().to_string()),
            _ => {
                c.append_dummy();
            }
        }
    }
}

// {"objs": [{"name": "f", "steps": [{"lines": [...]} | {"push": "f", "k": 1}]}, ...]}: code objects built in order, a push is what
// generate_asm.rs push_code does (append_code + the .endofinline<k> label); the lines of the last object are returned
fn asmapi_objs(case: &Value) -> Value {
    let mut objs: std::collections::HashMap<String, AssemblyCode> = std::collections::HashMap::new();
    let mut last = String::new();
    for o in case["objs"].as_array().unwrap() {
        let mut c = AssemblyCode::new();
        for st in o["steps"].as_array().unwrap() {
            if st["lines"].is_array() {
                asm_add_lines(&mut c, &st["lines"]);
            } else {
                let callee = objs.get(st["push"].as_str().unwrap()).expect("object").clone();
                let k = st["k"].as_u64().unwrap() as u32;
                c.append_code(&callee, k);
                c.append_label(format!(".endofinline{}", k));
            }
        }
        last = o["name"].as_str().unwrap().to_string();
        objs.insert(last.clone(), c);
    }
    let c = objs.get(&last).unwrap();
    json!({"status": "ok", "size": c.size_bytes(), "lines": lines_json(c)})
}

fn asmapi_one(case: Value, deadline: u64) -> Value {
    with_deadline(deadline, move || {
        if case["objs"].is_array() {
            return asmapi_objs(&case);
        }
        let mut c = AssemblyCode::new();
        for l in case["lines"].as_array().unwrap() {
            match l["k"].as_str().unwrap() {
                "i" => c.append_asm(AsmInstruction {
                    mnemonic: mnemonic(l["mn"].as_str().unwrap()).expect("mnemonic"),
                    dasm_operand: l["op"].as_str().unwrap_or("").to_string(),
                    cycles: l["cy"].as_u64().unwrap_or(2) as u32,
                    cycles_alt: l["cya"].as_u64().map(|x| x as u32),
                    nb_bytes: l["nb"].as_u64().unwrap() as u32,
                    protected: l["prot"].as_bool().unwrap_or(false),
                }),
                "l" => c.append_label(l["name"].as_str().unwrap().to_string()),
                "a" => c.append_inline(l["text"].as_str().unwrap().to_string(), l["nb"].as_u64().map(|x| x as u32)),
                "c" => c.append_comment(l["text"].as_str().unwrap().to_string()),
                _ => {
                    c.append_dummy();
                }
            }
        }
        let mut res = json!({"status": "ok"});
        for op in case["ops"].as_array().unwrap() {
            match op.as_str().unwrap() {
                "optimize" => res["removed"] = json!(c.optimize()),
                "check_branches" => res["fixes"] = json!(c.check_branches()),
                _ => (),
            }
        }
        res["size"] = json!(c.size_bytes());
        res["lines"] = json!(lines_json(&c));
        res
    })
}

fn main() {
    std::panic::set_hook(Box::new(|info| {
        let loc = info.location().map(|l| format!("{}:{}", l.file(), l.line())).unwrap_or_default();
        let msg = if let Some(s) = info.payload().downcast_ref::<&str>() {
            s.to_string()
        } else if let Some(s) = info.payload().downcast_ref::<String>() {
            s.clone()
        } else {
            String::new()
        };
        // the innermost functions of the library on the stack identify the call site independently of line numbers
        let bt = std::backtrace::Backtrace::force_capture().to_string();
        let mut callers: Vec<String> = Vec::new();
        for l in bt.lines() {
            let t = l.trim();
            if let Some(i) = t.find("cc6502::") {
                let mut f = t[i..].to_string();
                if let Some(j) = f.find("::{{closure}}") { f.truncate(j); }
                if let Some(j) = f.rfind("::h") { if f.len() - j == 19 { f.truncate(j); } }
                let f = f.replace("cc6502::", "");
                if callers.last() != Some(&f) && !f.starts_with("compile::compile") { callers.push(f); }
                if callers.len() >= 3 { break; }
            }
        }
        *LAST_PANIC.lock().unwrap() = format!("{} @ {} @ {}", msg, loc, callers.join(" < "));
    }));
    let argv: Vec<String> = std::env::args().collect();
    let mode = argv[1].clone();
    let inpath = argv[2].clone();
    let outpath = argv[3].clone();
    let mut from = 0usize;
    let mut dir = "work/files".to_string();
    let mut deadline = 3000u64;
    let mut i = 4;
    while i < argv.len() {
        match argv[i].as_str() {
            "--from" => { from = argv[i + 1].parse().unwrap(); i += 2; }
            "--dir" => { dir = argv[i + 1].clone(); i += 2; }
            "--deadline" => { deadline = argv[i + 1].parse().unwrap(); i += 2; }
            _ => i += 1,
        }
    }
    let f = std::fs::File::open(&inpath).expect("cases file");
    let mut w = std::fs::OpenOptions::new().create(true).append(true).open(&outpath).unwrap();
    for (n, line) in std::io::BufReader::new(f).lines().enumerate() {
        let line = line.unwrap();
        if n < from || line.trim().is_empty() {
            continue;
        }
        let c: Value = serde_json::from_str(&line).expect("case json");
        let id = c["id"].clone();
        let idstr = match &id { Value::String(s) => s.clone(), v => v.to_string() };
        // announce the case so that an abort can be attributed
        writeln!(w, "{}", json!({"begin": n, "id": id})).unwrap();
        w.flush().unwrap();
        let mut timed_out = false;
        match mode.as_str() {
            "compile" => {
                let mut d = write_files(&dir, &idstr, &c["files"]);
                if let Some(x) = c["incdir"].as_str() { d = x.to_string(); }
                for v in c["variants"].as_array().unwrap() {
                    let mut a: Vec<String> = v["args"].as_array().map(|a| a.iter().map(|x| x.as_str().unwrap().to_string()).collect()).unwrap_or_default();
                    if c["files"].is_object() || c["incdir"].is_string() {
                        a.push("-I".into());
                        a.push(d.clone());
                    }
                    let src = v["src"].as_str().or(c["src"].as_str()).unwrap().to_string();
                    let mut cfg = c["cfg"].clone();
                    if !cfg.is_object() { cfg = json!({}); }
                    if let Some(s) = v["scheme"].as_str() { cfg["scheme"] = json!(s); }
                    let mut o = compile_one(src, a, cfg, deadline);
                    o["id"] = id.clone();
                    o["variant"] = v["name"].clone();
                    o["n"] = json!(n);
                    writeln!(w, "{}", o).unwrap();
                    w.flush().unwrap();
                    if o["status"] == "timeout" { timed_out = true; break; }
                }
            }
            "cpp" => {
                let mut d = write_files(&dir, &idstr, &c["files"]);
                if let Some(x) = c["incdir"].as_str() { d = x.to_string(); }
                let defines = c["defines"].as_array().map(|a| a.iter().map(|x| x.as_str().unwrap().to_string()).collect()).unwrap_or_default();
                let query = c["query"].as_array().map(|a| a.iter().map(|x| x.as_str().unwrap().to_string()).collect()).unwrap_or_default();
                let mut o = cpp_one(c["src"].as_str().unwrap().to_string(), c["file"].as_str().unwrap_or("main.c").to_string(),
                    defines, vec![d], query, c["trace"].as_bool().unwrap_or(false), deadline);
                o["id"] = id.clone();
                o["n"] = json!(n);
                writeln!(w, "{}", o).unwrap();
                w.flush().unwrap();
                if o["status"] == "timeout" { timed_out = true; }
            }
            "asmapi" => {
                let mut o = asmapi_one(c.clone(), deadline);
                o["id"] = id.clone();
                o["n"] = json!(n);
                writeln!(w, "{}", o).unwrap();
                w.flush().unwrap();
                if o["status"] == "timeout" { timed_out = true; }
            }
            _ => panic!("unknown mode"),
        }
        if timed_out {
            // a runaway thread cannot be cancelled: leave, the driver restarts behind this case
            std::process::exit(3);
        }
    }
}
