"""C03: conditional branches always reach; long-branch repair preserves control flow.
GenLayout.tla -> AssemblyCode API (check_branches) -> Asm.tla (range/labels/size) + Refine.tla (same path)."""
import json, os, time, random
from . import common, refine, link, asmcheck
from .common import log

IO_BASE = 0x10      # io cells announcing the segments (zero page: STA is 2 bytes)
FAR = 0x1800        # absolute RAM cell for 3-byte fillers
BR = {"BEQ": ["BEQ"], "BNE": ["BNE"], "BCC": ["BCC"], "BCS": ["BCS"], "BMI": ["BMI"], "BPL": ["BPL"], "LEU": ["BCC", "BEQ"], "LES": ["BMI", "BEQ"]}


def ins(mn, op="", nb=1, cy=2):
    return dict(k="i", mn=mn, op=op, nb=nb, cy=cy, prot=False)


def render(items):
    lines = []
    seg = 0
    for it in items:
        if it["t"] == "lab":
            lines.append(dict(k="l", name=it["name"]))
        elif it["t"] == "br":
            for mn in BR[it["kind"]]:
                lines.append(dict(k="i", mn=mn, op=it["to"], nb=2, cy=2, cya=3, prot=False))
        else:
            n = it["n"]
            lines.append(ins("STA", "seg%d" % seg, 2, 3))
            seg += 1
            n -= 2
            st = it["style"]
            if st == "sta3":
                while n >= 3:
                    lines.append(ins("STA", "far", 3, 4))
                    n -= 3
            elif st == "inl" and n >= 2:
                lines.append(dict(k="a", text="NOP", nb=n))
                n = 0
            elif st == "mix":
                while n >= 5:
                    lines.append(ins("STA", "far", 3, 4))
                    lines.append(ins("STX", "segx", 2, 3))
                    n -= 5
            while n > 0:
                lines.append(ins("NOP", "", 1, 2))
                n -= 1
    return lines, seg


def gen_layouts(tier):
    d = common.workdir("gen_c03")
    cfg = os.path.join(d, "GenLayout.cfg")
    dists = "118..137" if tier == "thorough" else "{119, 122, 124, 125, 126, 127, 128, 129, 130, 131, 133}"
    styles = '{"nop", "sta3", "inl", "mix"}' if tier == "thorough" else '{"nop", "sta3", "inl"}'
    open(cfg, "w").write('CONSTANTS\n Dists = %s\n Styles = %s\n Tier = "%s"\nINIT Init\nNEXT Next\nINVARIANT Emit\nCHECK_DEADLOCK FALSE\n' % (dists, styles, tier))
    # sets in cfg files must be written with TLA+ syntax supported by the cfg parser: use a model module instead
    mc = os.path.join(d, "MCGenLayout.tla")
    open(mc, "w").write("---- MODULE MCGenLayout ----\nEXTENDS GenLayout\nMCDists == %s\nMCStyles == %s\n====\n" % (dists, styles))
    open(cfg, "w").write('CONSTANTS\n Dists <- MCDists\n Styles <- MCStyles\n Tier = "%s"\nINIT Init\nNEXT Next\nINVARIANT Emit\nCHECK_DEADLOCK FALSE\n' % tier)
    res = common.run_tlc("MCGenLayout", cfg=cfg, name="gen_c03", tags={"CASE"}, workers=4, heap="4g", module_dir=d)
    common.require_ok(res, "GenLayout")
    lays = [o for (_, o) in res.lines]
    lays.sort(key=lambda o: json.dumps(o, sort_keys=True))
    return lays, res


def c03(tier):
    t0 = time.time()
    pid = "C03"
    verdict = common.Verdict(pid)
    lays, gres = gen_layouts(tier)
    cases = []
    for i, l in enumerate(lays):
        lines, nseg = render(l["items"])
        cases.append(dict(id="%s-%05d" % (l["fam"], i), lines=lines, ops=["check_branches"], _nseg=nseg, _items=l["items"], fam=l["fam"]))
    obs = common.run_harness("asmapi", [{k: v for k, v in c.items() if not k.startswith("_")} for c in cases], "c03")
    recs, tcases = [], []
    crashed = 0
    repaired = 0
    flags = [dict(_N=n, _Z=z, _C=c, _V=(n + z + c) % 2) for n in (0, 1) for z in (0, 1) for c in (0, 1)]
    for c, ob in zip(cases, obs):
        o = ob[0] if ob else {"status": "missing"}
        if o.get("status") != "ok":
            crashed += 1
            verdict.violation("check_branches %s on layout %s: %s" % (o.get("status"), c["id"], o.get("panic", "")),
                              dict(property=pid, case=c["id"], items=c["_items"], outcome=o.get("status"), detail=o.get("panic", "")))
            continue
        if o["fixes"] > 0:
            repaired += 1
        nseg = c["_nseg"]
        addr = {"seg%d" % j: IO_BASE + j for j in range(nseg)}
        addr.update(far=FAR, segx=0x90, cctmp=0x80)
        # assembler view of the repaired function
        f_after = dict(name="f", lines=o["lines"], size=o["size"])
        lines_rec = []
        for l in o["lines"]:
            rec = dict(k=l["k"], name="", mn="", syn="none", val=0, lab="", nb=0, undef=False)
            if l["k"] == "l":
                rec["name"] = l["name"]
            elif l["k"] == "i":
                syn, val, lab = link.parse_operand(l["mn"], l["op"], addr)
                rec.update(mn=l["mn"], nb=l["nb"], syn=syn, val=val, lab=lab or "")
            elif l["k"] == "a":
                rec.update(nb=l["nb"], name=l["text"])
            lines_rec.append(rec)
        recs.append(dict(id=c["id"], fn="f", size=o["size"], globals=[], lines=lines_rec))
        # execution view: original (ideal branches) vs repaired
        try:
            code0, e0, _ = link.link([dict(name="f", lines=c["lines"])], addr, entry="f")
            code1, e1, _ = link.link([f_after], addr, entry="f")
        except link.LinkError as e:
            verdict.violation("repaired code does not link for %s: %s" % (c["id"], e), dict(property=pid, case=c["id"], items=c["_items"], error=str(e), lines=o["lines"]))
            continue
        if code0 == code1:
            continue        # nothing was repaired: the two executions are the same by construction
        vt = {"seg%d" % j: dict(kind="s", w=8, sg=False, n=1, addr=IO_BASE + j, io=True) for j in range(nseg)}
        vt["far"] = dict(kind="s", w=8, sg=False, n=1, addr=FAR, io=False)
        vt["segx"] = dict(kind="s", w=8, sg=False, n=1, addr=0x90, io=False)
        vt["X"] = dict(kind="s", w=8, sg=False, n=1, addr=-1, io=False)
        vt["Y"] = dict(kind="s", w=8, sg=False, n=1, addr=-2, io=False)
        inp0 = {n: 0 for n in vt}
        regions = [dict(lo=IO_BASE, hi=IO_BASE + 47, kind="io", delta=0), dict(lo=0x80, hi=0xFF, kind="ram", delta=0), dict(lo=FAR, hi=FAR + 15, kind="ram", delta=0)]
        tcases.append(dict(id=c["id"], vt=vt, fs={}, body=[], fuel=1, obs=[n for n in vt if n not in ("X", "Y")], regions=regions,
                           variants=[dict(name="ideal", code=code0, entry=e0), dict(name="repaired", code=code1, entry=e1)],
                           tmp=0x80, prefix=True, cycdiff=-1, sem=False, pair=True,
                           inputs=[dict(inp=dict(inp0, **fl), ex={}, bound=320) for fl in flags], _items=c["_items"], _after=o["lines"]))
    avs, ares = asmcheck.run(recs, "c03")
    byid = {t["id"]: t for t in tcases}
    seen = set()
    for av in avs:
        if av["kind"] in ("inRange", "uniqueLabel", "definedRef", "totalSizeReportedSmaller", "totalSizeReportedLarger", "legalMode") and av["f"] not in seen:
            seen.add(av["f"])
            t = byid.get(av["f"], {})
            verdict.violation("%s after check_branches in %s: %s" % (av["kind"], av["f"], av["detail"]),
                              dict(property=pid, case=av["f"], kind=av["kind"], detail=av["detail"], items=t.get("_items"), repaired_lines=t.get("_after")))
    mms, cut, rres = refine.run_tcases("c03", tcases)
    bad = {}
    for m in mms:
        bad.setdefault(m["id"], []).append(m)
    for cid, ms in sorted(bad.items()):
        if cid in seen:
            continue
        m = ms[0]
        t = byid[cid]
        fl = t["inputs"][m["k"] - 1]["inp"]
        verdict.violation("repair changes the path in %s for flags N=%d Z=%d C=%d" % (cid, fl["_N"], fl["_Z"], fl["_C"]),
                          dict(property=pid, case=cid, items=t["_items"], repaired_lines=t["_after"], flags={k: fl[k] for k in ("_N", "_Z", "_C", "_V")},
                               path_ideal=[e["addr"] - IO_BASE for e in m["want"]["_io"]], path_repaired=[e["addr"] - IO_BASE for e in m["got"]["_io"]],
                               halted=m["halted"], fault=m["fault"]))
    # ---- Layer 2: BranchFix.tla (check_branches as coded) model-checked against the Layer-1 meaning of branches on every
    # body within its bound, and bound to the real code by replaying the model's own cases (drift is reported, not a verdict)
    d2 = common.workdir("bf_c03")
    bcfg = os.path.join(d2, "MCBranchFix.cfg")
    mlen = 4 if tier == "quick" else 5
    open(bcfg, "w").write('SPECIFICATION Spec\nCONSTANTS MaxLen = %d\n Kinds = {"BEQ", "BCC", "BMI", "BPL"}\n Sizes = {3, 66, 124, 126}\n'
                          'INVARIANT Terminates\nINVARIANT RangeOK\nINVARIANT LabelsOK\nINVARIANT PathOK\nINVARIANT EmitConf\nCHECK_DEADLOCK FALSE\n' % mlen)
    bres = common.run_tlc("MCBranchFix", cfg=bcfg, name="bf_c03", tags={"CONF"}, workers=8, heap="8g", timeout=2400)
    if bres.violated_invariant:
        raise common.ToolError("design-level check failed: BranchFix violates %s (the model of check_branches is wrong or the algorithm is): %s" % (bres.violated_invariant, bres.raw_tail[-1200:]))
    common.require_ok(bres, "MCBranchFix")
    confs = [o for (_, o) in bres.lines]
    confs.sort(key=lambda o: json.dumps(o, sort_keys=True))
    rndc = random.Random(common.seed())
    if len(confs) > 1500:
        confs = rndc.sample(confs, 1500)

    def lname(n):
        return ("L%d" % n[1]) if n[0] == "L" else (".%s%d" % (n[0], n[1]))

    def to_lines(code):
        out = []
        for it in code:
            if it["k"] == "lab":
                out.append(dict(k="l", name=lname(it["name"])))
            elif it["k"] == "br":
                out.append(dict(k="i", mn=it["mn"], op=lname(it["to"]), nb=it["nb"], cy=2, prot=False))
            else:
                out.append(dict(k="a", text="SEG%d" % it["id"], nb=it["nb"]))
        return out

    def shape(lines):
        return [(l["k"], l.get("mn", ""), l.get("op", l.get("name", l.get("text", ""))), l.get("nb", 0)) for l in lines if l["k"] in ("l", "i", "a")]
    cobs = common.run_harness("asmapi", [dict(id="bf%d" % i, lines=to_lines(c["code"]), ops=["check_branches"]) for i, c in enumerate(confs)], "c03bf")
    drift = []
    for c, ob in zip(confs, cobs):
        o = ob[0] if ob else {"status": "missing"}
        if o.get("status") != "ok" or shape(o["lines"]) != shape(to_lines(c["fixed"])) or o.get("fixes") != c["fixes"]:
            drift.append(dict(body=shape(to_lines(c["code"])), model=shape(to_lines(c["fixed"])), real=shape(o.get("lines", [])) if o.get("status") == "ok" else o.get("status")))
    layer2 = dict(bodies_model_checked=bres.distinct, max_items=mlen, invariants=["Terminates", "RangeOK", "LabelsOK", "PathOK"], cases_replayed_into_check_branches=len(confs),
                  model_conformant=(len(drift) == 0), first_drift=(drift[0] if drift else None))
    if drift:
        log("NOTE: check_branches() no longer behaves like BranchFix.tla on %d of %d replayed bodies (model drift)" % (len(drift), len(confs)))
    # ---- program level: loops and ifs whose bodies straddle the limit, compiled by the real compiler; the emitted
    # functions (after its own check_branches) are measured by Asm.tla with true encoding sizes
    from . import vocab
    STMTS = ["arr[Y] = tab[Y];", "arr[X] = arr[X] + 1;", "s += t;", "a = b;", "arr[Y] = a;", "sarr[X] = s;", "a = arr[Y] & b;", "c = tab[X] | arr[Y];", "sarr[Y] = sarr[Y] + t;", "X = arr[Y];"]
    FORMS = ["do { %s } while (X);", "while (a) { %s }", "if (a) { %s } b = 1;", "for (X = 0; X != b; X++) { %s }", "if (a < b) { %s } else { c = 1; }"]
    PLACES = [None, {n: "ramchip" for n in ("a", "b", "c", "s", "t", "arr", "sarr")}]
    pcases = []
    for si, st in enumerate(STMTS):
        for fi, form in enumerate(FORMS):
            for pi, place in enumerate(PLACES):
                ks = range(3, 34) if tier == "thorough" else range(4, 34, 3)
                for k in ks:
                    body = form % " ".join([st] * k)
                    src = vocab.header(place=place) + "void main() { " + body + " }\n"
                    pcases.append(dict(id="prog-%d-%d-%d-%d" % (si, fi, pi, k), src=src, variants=[dict(name="O1", args=["-O1"]), dict(name="O0", args=["-O0"])]))
    pobs = common.run_harness("compile", pcases, "c03p")
    precs, near = [], 0
    psrc = {}
    for c, ob in zip(pcases, pobs):
        for o in ob:
            if o.get("status") == "ok":
                for r in asmcheck.func_records(c["id"], o["variant"], o):
                    precs.append(r)
                    psrc[r["id"]] = c["src"]
                    if 100 <= r["size"] <= 160:
                        near += 1
    pavs, pres = asmcheck.run(precs, "c03p")
    pseen = set()
    for av in pavs:
        if av["kind"] in ("inRange", "uniqueLabel", "definedRef") and av["f"] not in pseen:
            pseen.add(av["f"])
            verdict.violation("%s in compiled function %s: %s" % (av["kind"], av["f"], av["detail"]), dict(property=pid, function=av["f"], kind=av["kind"], detail=av["detail"], source=psrc[av["f"]]))
    if (repaired < 10 or near < 20) and not verdict.violations:      # (a run that found violations reports them)
        raise common.ToolError("vacuous: only %d layouts needed a repair, %d compiled functions near the limit" % (repaired, near))
    cov = dict(states=rres.distinct + ares.distinct + gres.distinct + bres.distinct, transitions=rres.generated + ares.generated + gres.generated + bres.generated,
               traces_validated_against_impl=len(tcases) * 8 + len(recs),
               samples=[dict(id=t["id"], layout=t["_items"], repaired=[(l.get("mn", "") + " " + l.get("op", l.get("name", ""))).strip() for l in t["_after"] if l["k"] in ("i", "l") and l.get("mn") != "NOP"][:30]) for t in tcases[:2]],
               layer2_BranchFix=layer2, layouts=len(cases), layouts_needing_repair=repaired, compiled_functions_measured=len(precs), compiled_functions_of_100_to_160_bytes=near, executions_compared=len(tcases) * 8 * 2, executions_cut_at_bound=cut,
               exhaustive=True, families=sorted(set(c["fam"] for c in cases)),
               explanation="Every layout enumerated by GenLayout.tla is built through AssemblyCode::append_*, repaired by check_branches(); Asm.tla measures "
                           "every branch displacement with true encoding sizes and checks labels and size; Refine.tla runs the original (ideal, "
                           "index-resolved branches) and the repaired code from all 8 N/Z/C states and compares the announced segment paths.")
    common.write_evidence(pid, tier, "model_checking", cov, time.time() - t0, len(verdict.violations),
                          ["inline assembly counted at its declared size", "filler code is flag-neutral (STA/STX/NOP) so a branch decision depends only on the entry flags"])
    return verdict.finish()


REGISTRY = {"C03": c03}
