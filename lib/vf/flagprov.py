"""Binding of spec/FlagProv.tla (Layer 2, trace validation): hook H3 records every place where the code generator relied on
its belief about the N/Z flags, with the lines emitted so far; TLC consumes the lines (FlagProv!Next) and decides whether
the belief is justified.  Unjustified uses are candidates: the caller confirms them by executing the program."""
import json, os, re
from . import common

_BEL = re.compile(r'^(A|X|Y|Unknown|Absolute\("([^"]*)", (true|false), (-?\d+)\)|AbsoluteX\("([^"]*)"\)|AbsoluteY\("([^"]*)"\))$')


def wanted(belief):
    """the operand spellings under which the believed location may appear in the emitted code"""
    m = _BEL.match(belief)
    if not m:
        return None
    if belief in ("A", "X", "Y"):
        return [belief]
    if m.group(2) is not None:
        off = int(m.group(4))
        return [m.group(2) if off == 0 else "%s+%d" % (m.group(2), off)]
    if m.group(5) is not None:
        return [m.group(5) + ",X"]
    if m.group(6) is not None:
        return [m.group(6) + ",Y", "(%s),Y" % m.group(6)]
    return None


def conv(l):
    k = {"instr": "i", "label": "l", "inline": "a"}.get(l["k"], "o")
    op = l["op"] if k in ("i", "l") else ""
    d = dict(k=k, mn=l["mn"] if k == "i" else "", op=op, base="", ind=False, dx=False, dy=False)
    if k == "i" and op and not op.startswith("#") and not op.startswith("."):
        m = re.match(r"\(?([A-Za-z_][A-Za-z0-9_]*)", op)
        d["base"] = m.group(1) if m else ""
        d["ind"] = op.startswith("(")
        d["dx"] = ",X" in op.upper()
        d["dy"] = ",Y" in op.upper()
    return d


def collect(cases, name):
    """cases: [dict(id, src, args)] -> (events [dict(id, case, fn, belief, want, lines)], programs compiled, uses recorded)"""
    hc = [dict(id=c["id"], src=c["src"], cfg=dict(flaguses=True), variants=[dict(name="v", args=c["args"])]) for c in cases]
    obs = common.run_harness("compile", hc, "fp_" + name)
    events, seen, nuses, nprog = [], set(), 0, 0
    for c, ob in zip(cases, obs):
        o = ob[0] if ob else {}
        if o.get("status") != "ok":
            continue
        nprog += 1
        for k, u in enumerate(o.get("flaguses", [])):
            nuses += 1
            want = wanted(u["belief"])
            if not want:
                continue
            lines = [conv(l) for l in u["code"]]
            key = json.dumps([want, [(l["k"], l["mn"], l["op"]) for l in lines]])
            if key in seen:          # the same belief after the same lines was judged already (for an earlier program)
                continue
            seen.add(key)
            events.append(dict(id="%s#%d" % (c["id"], k), case=c["id"], fn=u["fn"], belief=u["belief"], want=want, lines=lines))
    return events, nprog, nuses


def validate(events, name):
    """-> (tlc result, {event id: verdict dict})"""
    d = common.workdir("fpv_" + name)
    p = os.path.join(d, "uses.ndjson")
    with open(p, "w") as f:
        for ev in events:
            f.write(json.dumps(dict(id=ev["id"], want=ev["want"], lines=ev["lines"])) + "\n")
    cfg = os.path.join(d, "FlagProv.cfg")
    open(cfg, "w").write("SPECIFICATION Spec\nINVARIANT Report\nINVARIANT DescWellFormed\nCHECK_DEADLOCK FALSE\n")
    res = common.run_tlc("FlagProv", cfg=cfg, name="fpv_" + name, env=dict(USES=p), tags={"USE"}, workers=1, heap="6g", timeout=3000)
    if res.violated_invariant:
        raise common.ToolError("FlagProv.tla: invariant %s violated (the specification is wrong): %s" % (res.violated_invariant, res.raw_tail[-800:]))
    common.require_ok(res, "FlagProv")
    verdicts = {o["id"]: o for (_, o) in res.lines}
    if len(verdicts) != len(events):
        raise common.ToolError("FlagProv.tla decided %d of %d recorded uses" % (len(verdicts), len(events)))
    return res, verdicts
