"""Shared plumbing of the cc6502 verification framework: paths, TLC and harness runners,
evidence files, replay files, known findings, exit-code contract.

Exit codes of every check: 0 = property held on everything explored (KNOWN-FINDING lines allowed),
1 = at least one `VIOLATION property=<id> replay=<path>` line, 2 = tool failure (never a verdict).
"""
import json, os, re, shutil, subprocess, sys, time, hashlib

VERIF = os.path.dirname(os.path.dirname(os.path.dirname(os.path.abspath(__file__))))
SPEC = os.path.join(VERIF, "spec")
WORK = os.path.join(VERIF, "work")
EVID = os.path.join(VERIF, "evidence")
HARNESS = os.path.join(VERIF, "harness")
REPO = os.environ.get("VERIF_REPO_DEV_ONLY", "/repo")     # (the override is used by bin/dev_seedfarm.py only)
NCPU = os.cpu_count() or 4


class ToolError(Exception):
    pass


def seed():
    try:
        return int(os.environ.get("VERIF_SEED", "1"))
    except ValueError:
        return 1


# Scratch files of one invocation live in a directory of their own (two checks, or two tiers of one check, may run at the
# same time); it is removed when the process ends unless VERIF_KEEP is set.  Replay files, evidence and the generator cache
# are shared (they are written atomically).
RUN = os.path.join(WORK, "run_%d" % os.getpid())


def _cleanup_run():
    if not os.environ.get("VERIF_KEEP"):
        shutil.rmtree(RUN, ignore_errors=True)


import atexit
atexit.register(_cleanup_run)


def workdir(name, clean=True):
    d = os.path.join(RUN, name)
    if clean and os.path.isdir(d):
        shutil.rmtree(d, ignore_errors=True)
    os.makedirs(d, exist_ok=True)
    return d


def log(*a):
    print("[vf]", *a, file=sys.stderr, flush=True)


# ----------------------------------------------------------------------------------------------
# harness
# ----------------------------------------------------------------------------------------------
_built = {}
TRACE_HOOK = [True]
FLAGS_HOOK = [True]


def build_harness(flavour="default"):
    """cargo build of the harness against /repo's current working tree (offline). flavour: default | atari2600"""
    if flavour in _built:
        return _built[flavour]
    env = dict(os.environ, CARGO_NET_OFFLINE="true")
    tdir = "target" if flavour == "default" else "target2600"
    cmd = ["cargo", "build", "--offline", "--target-dir", tdir]
    if flavour == "atari2600":
        cmd += ["--features", "atari2600"]
    t0 = time.time()
    p = subprocess.run(cmd, cwd=HARNESS, env=env, stdout=subprocess.PIPE, stderr=subprocess.STDOUT, text=True)
    if p.returncode != 0:
        # the event-log hook (H2b) reaches into the preprocessor's internals; if a change of /repo broke it, go on without it
        env2 = dict(env, RUSTFLAGS="--cfg cc6502_verif --check-cfg cfg(cc6502_verif) --check-cfg cfg(cc6502_verif_trace) --check-cfg cfg(cc6502_verif_flags)")
        p2 = subprocess.run(cmd, cwd=HARNESS, env=env2, stdout=subprocess.PIPE, stderr=subprocess.STDOUT, text=True)
        if p2.returncode != 0:
            raise ToolError("harness build failed (does /repo still compile?):\n" + p.stdout[-3000:])
        log("NOTE: built without the event-log hooks (cfg cc6502_verif_trace / cc6502_verif_flags do not compile on this tree)")
        TRACE_HOOK[0] = False
        FLAGS_HOOK[0] = False
    exe = os.path.join(HARNESS, tdir, "debug", "vharness")
    log("harness[%s] built in %.1fs" % (flavour, time.time() - t0))
    _built[flavour] = exe
    return exe


def _run_chunk(exe, mode, infile, outfile, filesdir, deadline_ms, ncases):
    """Run one harness process over infile, restarting behind cases that abort or hang."""
    start = 0
    open(outfile, "w").close()
    restarts = 0
    while True:
        p = subprocess.Popen([exe, mode, infile, outfile, "--from", str(start), "--dir", filesdir,
                              "--deadline", str(deadline_ms)],
                             stdout=subprocess.DEVNULL, stderr=subprocess.DEVNULL)
        try:
            rc = p.wait(timeout=3600)
        except subprocess.TimeoutExpired:
            p.kill()
            raise ToolError("harness chunk timed out")
        if rc == 0:
            return
        # find the last announced case
        last_begin, last_done = -1, -1
        with open(outfile) as f:
            for line in f:
                try:
                    o = json.loads(line)
                except ValueError:
                    continue
                if "begin" in o:
                    last_begin = o["begin"]
                elif "n" in o:
                    last_done = o["n"]
        if rc != 3:
            # hard abort (signal): attribute to the last announced case
            with open(outfile, "a") as f:
                f.write(json.dumps({"n": last_begin, "abort": True, "status": "abort", "rc": rc}) + "\n")
        restarts += 1
        if restarts > ncases + 5:
            raise ToolError("harness keeps dying")
        start = last_begin + 1
        if start >= ncases:
            return


def run_harness(mode, cases, name, flavour="default", nproc=None, deadline_ms=3000, retry_timeouts=True):
    """cases: list of dicts (each with 'id').  Returns list of observation dicts in case order;
    for mode 'compile' one per (case, variant).
    A deadline is a wall-clock measure and the machine may be busy: every case that timed out is run once more, few at a
    time and with eight times the deadline, before "timeout" is believed (a real hang times out again)."""
    res = _run_harness(mode, cases, name, flavour, nproc, deadline_ms)
    if retry_timeouts:
        late = [i for i, ob in enumerate(res) if any(o.get("status") == "timeout" for o in ob)]
        if late:
            log("%s: %d case(s) timed out at %d ms; running them again with %d ms" % (name, len(late), deadline_ms, 8 * deadline_ms))
            again = _run_harness(mode, [cases[i] for i in late], name + "_retry", flavour, min(4, len(late)), 8 * deadline_ms)
            for i, ob in zip(late, again):
                res[i] = ob
    return res


def _run_harness(mode, cases, name, flavour, nproc, deadline_ms):
    from concurrent.futures import ThreadPoolExecutor
    exe = build_harness(flavour)
    d = workdir("h_" + name)
    nproc = nproc or min(NCPU, max(1, len(cases) // 50))
    chunks = [cases[i::nproc] for i in range(nproc)]
    jobs = []
    for ci, ch in enumerate(chunks):
        inf = os.path.join(d, "in%d.ndjson" % ci)
        with open(inf, "w") as f:
            for c in ch:
                f.write(json.dumps(c) + "\n")
        jobs.append((exe, mode, inf, os.path.join(d, "out%d.ndjson" % ci), os.path.join(d, "files%d" % ci), deadline_ms, len(ch)))
    with ThreadPoolExecutor(max_workers=nproc) as ex:
        list(ex.map(lambda j: _run_chunk(*j), jobs))
    # collect
    out = {}
    for ci, ch in enumerate(chunks):
        ids = [c["id"] for c in ch]
        with open(jobs[ci][3]) as f:
            for line in f:
                try:
                    o = json.loads(line)
                except ValueError:
                    continue
                if "begin" in o:
                    continue
                if o.get("abort"):
                    o["id"] = ids[o["n"]]
                out.setdefault(o["id"] if not isinstance(o["id"], (dict, list)) else json.dumps(o["id"]), []).append(o)
    res = []
    for c in cases:
        res.append(out.get(c["id"], []))
    return res


# ----------------------------------------------------------------------------------------------
# TLC
# ----------------------------------------------------------------------------------------------
TLC_JAR = "/opt/veriftools/tla/tla2tools.jar"
COMMUNITY = None


def _classpath():
    global COMMUNITY
    if COMMUNITY is None:
        # the `tlc` wrapper already carries CommunityModules on its classpath; find it
        cands = [p for p in os.listdir("/opt/veriftools/tla") if p.endswith(".jar")]
        COMMUNITY = ":".join(os.path.join("/opt/veriftools/tla", p) for p in sorted(cands))
    return COMMUNITY


class TlcResult:
    def __init__(self):
        self.lines = []      # printed payload lines (TAG json) decoded: list of (tag, obj)
        self.generated = 0
        self.distinct = 0
        self.init_states = 0
        self.ok = False
        self.wall = 0.0
        self.raw_tail = ""
        self.violated_invariant = None
        self.error_trace = None


_PAY = re.compile(r'^"((?:[A-Z]+) .*)"$')


def run_tlc(module, cfg=None, env=None, workers=None, timeout=1800, name=None, tags=None, simulate=None,
            depth_first=False, heap="12g", extra=None, on_line=None, module_dir=None):
    """module_dir: directory of a module generated for this run (it EXTENDS modules of spec/, found through TLA-Library)"""
    """Run TLC on spec/<module>.tla.  Payload lines are those printed with PrintT("TAG " \\o ToJson(..));
    they come out as a JSON-quoted string: decode twice."""
    name = name or module
    meta = workdir("tlc_" + name)
    cfg = cfg or (module + ".cfg")
    workers = workers or min(NCPU, 12)
    jopts = "-Xss512m"
    if depth_first:
        jopts += " -Dtlc2.tool.queue.IStateQueue=StateDeque"
    e = dict(os.environ)
    e["JAVA_TOOL_OPTIONS"] = jopts
    if env:
        e.update({k: str(v) for k, v in env.items()})
    cmd = ["java", "-XX:+UseParallelGC", "-Xmx" + heap, "-Djava.io.tmpdir=" + meta] + (["-DTLA-Library=" + SPEC] if module_dir else []) + ["-cp",
           "/opt/veriftools/tla/tla2tools.jar:/opt/veriftools/tla/CommunityModules-deps.jar", "tlc2.TLC",
           "-workers", str(workers), "-metadir", meta, "-cleanup", "-noGenerateSpecTE",
           "-config", cfg]
    if simulate:
        cmd += ["-simulate", simulate]
    if extra:
        cmd += extra
    cmd += [module + ".tla"]
    t0 = time.time()
    res = TlcResult()
    logf = os.path.join(meta, "..", "tlc_%s.log" % name)
    p = subprocess.Popen(["timeout", str(timeout)] + cmd, cwd=module_dir or SPEC, env=e, stdout=subprocess.PIPE, stderr=subprocess.STDOUT,
                         text=True, errors="replace")
    tail = []
    with open(logf, "w") as lf:
        for line in p.stdout:
            line = line.rstrip("\n")
            mm = _PAY.match(line)
            if mm:
                try:
                    s = json.loads(line)
                    tag, _, rest = s.partition(" ")
                    if tags is None or tag in tags:
                        obj = json.loads(rest)
                        if on_line:
                            on_line(tag, obj)
                        else:
                            res.lines.append((tag, obj))
                    continue
                except ValueError:
                    pass
            lf.write(line + "\n")
            tail.append(line)
            if len(tail) > 60:
                tail.pop(0)
            m2 = re.search(r"(\d+) states generated, (\d+) distinct states found", line)
            if m2:
                res.generated, res.distinct = int(m2.group(1)), int(m2.group(2))
            m3 = re.search(r"Finished computing initial states: (\d+) distinct state", line)
            if m3:
                res.init_states = int(m3.group(1))
            m4 = re.search(r"Invariant (\w+) is violated", line)
            if m4:
                res.violated_invariant = m4.group(1)
            if "Model checking completed. No error has been found." in line or "Finished in" in line and simulate:
                res.ok = True
    rc = p.wait()
    res.wall = time.time() - t0
    res.raw_tail = "\n".join(tail)
    res.rc = rc
    if rc == 124:
        raise ToolError("TLC timed out after %ds on %s" % (timeout, module))
    return res


def require_ok(res, what):
    if not res.ok:
        raise ToolError("TLC did not complete normally on %s:\n%s" % (what, res.raw_tail[-3000:]))


# ----------------------------------------------------------------------------------------------
# evidence, replay, findings
# ----------------------------------------------------------------------------------------------
def write_evidence(pid, tier, level, coverage, wall, violations, assumptions=None):
    os.makedirs(EVID, exist_ok=True)
    ev = {"property_id": pid, "tier": tier, "seed": seed(), "level": level, "coverage": coverage,
          "assumptions": assumptions or [], "wall_s": round(wall, 2), "violations": violations}
    with open(os.path.join(EVID, pid + ".json"), "w") as f:
        json.dump(ev, f, indent=1, sort_keys=True)


def write_replay(pid, obj):
    d = os.path.join(WORK, "replay")
    os.makedirs(d, exist_ok=True)
    blob = json.dumps(obj, sort_keys=True, indent=1)
    h = hashlib.sha1(blob.encode()).hexdigest()[:12]
    path = os.path.join(d, "%s-%s.json" % (pid, h))
    with open(path, "w") as f:
        f.write(blob)
    return path


def load_findings():
    p = os.path.join(VERIF, "known_findings.json")
    if not os.path.exists(p):
        return []
    return json.load(open(p))["findings"]


class Verdict:
    """Collects violations / known-finding attributions for one check run and prints the contract lines."""

    def __init__(self, pid):
        self.pid = pid
        self.violations = []   # (summary, replay obj)
        self.known = {}        # finding id -> count
        self.findings = [f for f in load_findings() if f["property"] == pid and f.get("status") == "open"]
        d = os.path.join(WORK, "replay")     # replay files of earlier runs of this check are stale (another run may be in progress: keep recent ones)
        if os.path.isdir(d):
            for fn in os.listdir(d):
                fp = os.path.join(d, fn)
                try:
                    if fn.startswith(pid + "-") and time.time() - os.path.getmtime(fp) > 3 * 3600:
                        os.remove(fp)
                except OSError:
                    pass

    def violation(self, summary, replay_obj):
        self.violations.append((summary, replay_obj))

    def attribute(self, fid):
        self.known[fid] = self.known.get(fid, 0) + 1

    def finish(self, max_print=12):
        for f in self.findings:
            if self.known.get(f["id"], 0) > 0:
                print("KNOWN-FINDING: property=%s %s [%s: %d observation(s)]" % (self.pid, f["what"], f["id"], self.known[f["id"]]))
        seen = 0
        for summary, obj in self.violations:
            path = write_replay(self.pid, obj)
            if seen < max_print:
                print("VIOLATION property=%s replay=%s  # %s" % (self.pid, path, summary))
            seen += 1
        if seen > max_print:
            print("... %d further violations not printed (replay files written)" % (seen - max_print))
        sys.stdout.flush()
        return 1 if self.violations else 0
