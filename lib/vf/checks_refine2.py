"""C14 (inlining), C15 (equivalent source forms), C17 (split-port RAM), C18 (timing / hardware access), C11 (layout)."""
import itertools, json, os, random, re, time
from . import common, refine, vocab, render, sig, checks_refine
from .common import log

REGISTRY = {}


def evidence_pair(pid, tier, pl, verdict, nbad, t0, explanation, extra=None):
    st = pl.stats
    if (st["programs"] - st["rejected"] - st["crashed"] - st["linkerr"] < 10) and not verdict.violations:      # (a run that found violations reports them)
        raise common.ToolError("vacuous run: %s" % json.dumps(st))
    cov = dict(programs=st["programs"], disagreements_checked=nbad, samples=pl.samples[:4], states=st["states"], transitions=st["transitions"],
               traces_validated_against_impl=st["behaviours"], accepted=st["programs"] - st["rejected"] - st["crashed"], rejected_by_compiler=st["rejected"],
               reject_reasons=st["reject_reasons"], link_errors=st["linkerr"], inputs=st["inputs"], inputs_decided_by_source_semantics=st["src_ok"],
               variants_identical_not_re_executed=st["identical_variants"], reference_runs_cut_at_bound=st["cut"],
               attributed_to_known_findings=verdict.known, exhaustive=(tier == "thorough"), explanation=explanation)
    cov.update(extra or {})
    common.write_evidence(pid, tier, "translation_validation", cov, time.time() - t0, len(verdict.violations), ["6502 model as for C01", "harness layout/linker"])


# ---------------------------------------------------------------------------------------------
# C14: inlining is transparent
# ---------------------------------------------------------------------------------------------
def c14(tier):
    t0 = time.time()
    pid = "C14"
    verdict = common.Verdict(pid)
    progs, total = checks_refine.sample_programs(tier, fams=["F5a", "F5b", "F5c", "F5d", "F5f", "F5h", "F6"], name="c14", scale=1.5, quota={"F6": 600, "F5d": None, "F5f": None, "F5h": None})
    cases, bodies = [], {}
    for i, p in enumerate(progs):
        used = vocab.closure(sorted(render.calls_in(p["body"])))
        if not used:
            continue
        subsets = [s for k in range(1, len(used) + 1) for s in itertools.combinations(used, k)]
        if tier == "quick" and len(subsets) > 4:
            rnd = random.Random(i)
            subsets = [tuple(used)] + rnd.sample(subsets[:-1], 3)
        vs = [dict(name="noinline", args=["-O1"], src=vocab.source(p["body"], used))]
        for s in subsets:
            vs.append(dict(name="inline:" + "+".join(s), args=["-O1"], src=vocab.source(p["body"], used, inline=s)))
        cid = "%s-%05d" % (p["fam"], i)
        cases.append(dict(id=cid, fam=p["fam"], body=None, in_body=p["body"], fnames=used, variants=vs, small=(p["fam"] == "F6")))
        bodies[cid] = p["body"]
    pl = refine.Pipeline("c14", tier=tier)
    pl.run(cases, sem=False, pair=True, maxin=12 if tier == "quick" else 32)
    nbad = checks_refine.judge(pl, verdict, pid, checks_refine.finding_signatures(pid), bodies)
    # ---- Layer 2: Inline.tla (append_code as coded, used as push_code uses it) model-checked for unique labels, closed bodies, sizes and
    # shape on every body within the bound, and bound to the real append_code by replay (drift is reported, it is not a verdict)
    from . import inlinemodel
    ires, iconfs, idrift = inlinemodel.run("c14", 4 if tier == "quick" else 5, 3000 if tier == "quick" else 40000)
    layer2 = dict(bodies_model_checked=ires.distinct, max_lines=4 if tier == "quick" else 5, invariants=["LabelsOK", "ClosedOK", "SizeOK", "ShapeOK"],
                  bodies_replayed_into_append_code=len(iconfs), scenarios=["inlined twice", "nested inlining, inlined twice"], model_conformant=(len(idrift) == 0),
                  drifts=len(idrift), first_drift=(idrift[0] if idrift else None))
    if idrift:
        print("[vf] NOTE: append_code() no longer behaves like Inline.tla on %d of %d replayed cases (model drift), e.g. %s" % (len(idrift), 2 * len(iconfs), json.dumps(idrift[0])[:400]))
    evidence_pair(pid, tier, pl, verdict, nbad, t0, extra=dict(layer2_Inline=layer2), explanation="Programs with calls (families F5a, F5b, F6: arguments, results in larger expressions, nested calls, callee bodies with loops, early returns, "
                  "switch, locals) are compiled with no function inline and with subsets of the called functions declared inline; Refine.tla runs the non-inline code, then each "
                  "inline variant from the same input and requires equal final variables, X, Y, faults and termination.")
    return verdict.finish()


REGISTRY["C14"] = c14


# ---------------------------------------------------------------------------------------------
# C15: equivalent source forms behave identically
# ---------------------------------------------------------------------------------------------
def c15(tier):
    t0 = time.time()
    pid = "C15"
    verdict = common.Verdict(pid)
    pairs = refine.gen_programs(["RW"], "c15", which="RW")
    total = len(pairs)
    if tier == "quick" and len(pairs) > 1600:
        rnd = random.Random(common.seed())
        byrule = {}
        for p in pairs:
            byrule.setdefault(p["rule"], []).append(p)
        pairs = []
        for r, ps in sorted(byrule.items()):
            pairs += rnd.sample(ps, min(len(ps), 200))
    cases, bodies = [], {}
    for i, p in enumerate(pairs):
        fn = sorted(render.calls_in(p["body"]) | render.calls_in(p["body2"]))
        cid = "%s-%05d" % (p["rule"], i)
        both = [dict(k="block", b=p["body"]), dict(k="block", b=p["body2"])]
        cases.append(dict(id=cid, fam=p["rule"], body=None, in_body=both, fnames=fn, small=(p["rule"] in ("forwhile",)),
                          variants=[dict(name="A", args=["-O1"], src=vocab.source(p["body"], fn)), dict(name="B", args=["-O1"], src=vocab.source(p["body2"], fn))]))
        bodies[cid] = p["body"]
        bodies[cid + "#B"] = p["body2"]
    # the tenth pair: one AST, two spellings - canonical (every sub-expression parenthesised, every body braced) and natural
    # (parentheses only where C's precedence needs them, single statements without braces, else-if chains)
    sfams = ["F1n", "F2a", "F2c", "F2d", "F2e", "F3a", "F3b", "F3d", "F3e", "F4b", "F7a", "F7b", "F7d", "F8f", "FG", "FP", "FT", "F5e", "F1b", "F1c"]
    sprogs, _ = checks_refine.sample_programs(tier, fams=sfams, name="c15s", scale=0.25, quota={"FG": None, "F3e": None, "F2d": None, "F3d": 30})
    for i, p in enumerate(sprogs):
        fn = sorted(render.calls_in(p["body"]))
        a, b = vocab.source(p["body"], fn), vocab.source(p["body"], fn, natural=True)
        if a == b:
            continue
        cid = "surface-%05d" % i
        cases.append(dict(id=cid, fam="surface", body=None, in_body=p["body"], fnames=fn, small=(p["fam"] in checks_refine.SMALL_FAMS),
                          variants=[dict(name="A", args=["-O1"], src=a), dict(name="B", args=["-O1"], src=b)]))
        bodies[cid] = p["body"]
        bodies[cid + "#B"] = p["body"]
    pl = refine.Pipeline("c15", tier=tier)
    pl.run(cases, sem=False, pair=True, maxin=16 if tier == "quick" else 48)
    sm = checks_refine.finding_signatures(pid)
    sm01 = checks_refine.finding_signatures("C01")     # a side that C01 already knows to be miscompiled explains a difference

    def key(cid, sg):
        sb = sig.signature(bodies[cid + "#B"])
        for s in (sg, sb):
            if s in sm:
                return s
        for s in (sg, sb):
            if s in sm01:
                sm[s] = "KF-C15-c01-defect"
                return s
        return sg
    nbad = checks_refine.judge(pl, verdict, pid, sm, bodies, extra_key=key)
    rules = sorted(set(p["rule"] for p in pairs))
    evidence_pair(pid, tier, pl, verdict, nbad, t0, "GenProg.tla's RW family enumerates program pairs related by the nine transformations of the property (%s); both forms are compiled and "
                  "Refine.tla requires equal final states from every input.  A form the compiler refuses makes the pair undecided." % ", ".join(rules), dict(pairs_generated=total, rules=rules))
    return verdict.finish()


REGISTRY["C15"] = c15


# ---------------------------------------------------------------------------------------------
# C17: split-port cartridge RAM
# ---------------------------------------------------------------------------------------------
SPLIT_PLACEMENTS = [
    ("sc_ab", {"a": "superchip", "b": "superchip", "arr": "superchip"}, "4K", []),
    ("sc_16", {"s": "superchip", "ss": "superchip", "sarr": "superchip", "t": "superchip"}, "4K", []),
    ("sc_all", {n: "superchip" for n in ("a", "b", "c", "sa", "s", "t", "ss", "arr", "sarr")}, "4K", []),
    ("3E_ab", {"a": "bank1", "b": "bank1", "arr": "bank1", "s": "bank1"}, "3E", ["-D__3E__"]),
    ("3EP_all", {n: "bank1" for n in ("a", "b", "c", "sa", "s", "ss", "arr", "sarr")}, "3EP", ["-D__3E_PLUS__"]),
    ("plain", None, "4K", []),      # control group: ordinary variables are unaffected
]


def c17(tier):
    t0 = time.time()
    pid = "C17"
    verdict = common.Verdict(pid)
    fams = ["F1a", "F1b", "F1d", "F1e", "F1g", "F2a", "F2b", "F3a", "F3b", "F5a", "F7a", "F8", "F7d"]      # F8: reload after modify (the optimiser sees two spellings of one split-port cell)
    progs, total = checks_refine.sample_programs(tier, fams=fams, name="c17", scale=0.35)
    cases, bodies = [], {}
    rnd = random.Random(common.seed() + 17)
    for i, p in enumerate(progs):
        fn = sorted(render.calls_in(p["body"]))
        pls = SPLIT_PLACEMENTS if tier == "thorough" else rnd.sample(SPLIT_PLACEMENTS[:5], 2) + ([SPLIT_PLACEMENTS[5]] if i % 6 == 0 else [])
        for (pn, place, scheme, dargs) in pls:
            cid = "%s-%05d-%s" % (p["fam"], i, pn)
            cases.append(dict(id=cid, fam=p["fam"], body=p["body"], fnames=fn, _pl=pn,
                              variants=[dict(name="O1", args=["-O1"] + dargs, src=vocab.source(p["body"], fn, place=place), scheme=scheme)]))
            bodies[cid] = p["body"]
    pl = refine.Pipeline("c17", flavour="atari2600", tier=tier)
    pl.run(cases, sem=True, pair=False, maxin=10 if tier == "quick" else 32, small_fams=checks_refine.SMALL_FAMS)
    sm = dict(checks_refine.finding_signatures(pid))
    sm01 = checks_refine.finding_signatures("C01")
    placement = {c["id"]: c["_pl"] for c in cases}

    triggers = [(re.compile(f["sig_regex"]), f.get("fault"), f["id"]) for f in verdict.findings if f.get("sig_regex")]

    def key(cid, sg):
        k = "%s @%s" % (sg, placement[cid])
        if k in sm:
            return k
        bad = [m for m in pl.mismatches if m["id"] == cid]
        fl = set(f for m in bad for f in m["fault"])
        # class-level finding: a shape (regular expression over the signature) together with the machine fault it produces
        for rx, fault, fid in triggers:
            if placement[cid] != "plain" and rx.search(sg) and (fault is None or fault in fl) and fl <= {fault, "unmapped"}:
                sm[k] = fid
                return k
        # a miscompilation that C01 already lists (independent of placement) is not a split-port defect
        # (its out-of-bounds accesses may land anywhere, so the faults it raises are not informative)
        if sg in sm01:
            sm[sg] = "KF-C17-c01-defect"
            return sg
        return k
    nbad = checks_refine.judge(pl, verdict, pid, sm, bodies, extra_key=key)
    faults = {}
    for m in pl.mismatches:
        for f in m["fault"]:
            faults[f] = faults.get(f, 0) + 1
    evidence_pair(pid, tier, pl, verdict, nbad, t0, "GenProg programs are compiled (feature atari2600) with subsets of the variables declared superchip, or bank-resident RAM under 3E / 3E+; "
                  "the 6502 model's split-port memory classes fault on a read of a write port, a write to a read port and any read-modify-write on either; the final "
                  "state must also equal what CSem prescribes.", dict(placements=[p[0] for p in SPLIT_PLACEMENTS], machine_faults_seen=faults))
    return verdict.finish()


REGISTRY["C17"] = c17


# ---------------------------------------------------------------------------------------------
# C18: timing and hardware-access statements are emitted exactly
# ---------------------------------------------------------------------------------------------
def sleep_body(n, ctx, with_sleep):
    sl = [dict(k="csleep", n=n)] if with_sleep else [dict(k="nop")]
    V, N = vocab.V, vocab.N
    asg = lambda d, e: dict(k="expr", e=dict(k="asg", op="=", lhs=V(d), e=e))
    if ctx == "alone":
        return sl
    if ctx == "between":
        return [asg("a", V("b"))] + sl + [asg("c", V("a"))]
    if ctx == "afterload":
        return [dict(k="load", e=V("a"))] + sl + [dict(k="store", e=V("b"))]
    if ctx == "loop":
        return [dict(k="for", init=dict(k="asg", op="=", lhs=V("X"), e=N(0)), c=dict(k="bin", op="<", l=V("X"), r=N(3)),
                     upd=dict(k="inc", pre=False, d=1, lhs=V("X")), b=sl + [dict(k="expr", e=dict(k="inc", pre=False, d=1, lhs=V("c")))])]
    raise ValueError(ctx)


def c18(tier):
    t0 = time.time()
    pid = "C18"
    verdict = common.Verdict(pid)
    allp = refine.gen_programs(["FX", "FS"], "c18", which="FX")
    fx = [p for p in allp if p["fam"] == "FX"]
    fs = [p for p in allp if p["fam"] == "FS"]
    total = len(fx)
    if tier == "quick":
        rnd = random.Random(common.seed())
        # always: every pair, everything with calls, and every triple that ends in a test (the consumers of stale flags)
        keep = lambda p: (len(p["body"]) == 2 and p["body"][0]["k"] != "for") or bool(render.calls_in(p["body"])) or (len(p["body"]) == 3 and p["body"][2]["k"] == "if")
        two = [p for p in fx if keep(p)]
        rest = [p for p in fx if not keep(p)]
        fx = two + rnd.sample(rest, min(len(rest), 1400))
    cases, bodies = [], {}
    io_names = ("PORT1", "PORT2", "PORT3")
    for i, p in enumerate(fx):
        fn = sorted(render.calls_in(p["body"]))
        src = vocab.source(p["body"], fn, ports=True)
        cid = "FX-%05d" % i
        vs = [dict(name=l, args=[l], src=src) for l in ("-O0", "-O1", "-O2")]
        if fn:      # the same program with every called function declared inline
            isrc = vocab.source(p["body"], fn, inline=fn, ports=True)
            vs += [dict(name="inline" + l, args=[l], src=isrc) for l in ("-O0", "-O1")]
        # xio: all variants are one source at several levels (or with inline functions): the accesses of protected instructions must agree
        cases.append(dict(id=cid, fam="FX", body=p["body"], fnames=fn, io_names=io_names, extra_decl=vocab.PORT_DECLS, variants=vs, xio=True))
        bodies[cid] = p["body"]
    for p in fs:
        a, b = sleep_body(p["n"], p["ctx"], True), sleep_body(p["n"], p["ctx"], False)
        for lvl in ("-O0", "-O1"):
            cid = "FS-%s-%d%s" % (p["ctx"], p["n"], lvl)
            cases.append(dict(id=cid, fam="FS", body=None, in_body=a, fnames=[], io_names=io_names, extra_decl=vocab.PORT_DECLS,
                              # cycle-exactness is measured where the optimiser treats both programs alike (a NOP between STA a / LDA a
                              # legitimately keeps a load that is removed without it)
                              cycdiff=(p["n"] if p["ctx"] != "loop" and not (p["ctx"] == "between" and lvl != "-O0") else -1), small=True,
                              variants=[dict(name="sleep", args=[lvl], src=vocab.source(a, [], ports=True)), dict(name="nosleep", args=[lvl], src=vocab.source(b, [], ports=True))]))
            bodies[cid] = a
    pl = refine.Pipeline("c18", flavour="atari2600", tier=tier)
    pl.run(cases, sem=True, pair=True, maxin=6 if tier == "quick" else 16)
    sm = dict(checks_refine.finding_signatures(pid))
    triggers = [(re.compile(f["sig_regex"]), f["id"]) for f in verdict.findings if f.get("sig_regex")]

    def key(cid, sg):
        if sg in sm:
            return sg
        for rx, fid in triggers:
            if rx.search(sg):
                sm[sg] = fid
                return sg
        return sg
    nbad = checks_refine.judge(pl, verdict, pid, sm, bodies, extra_key=key)
    sleeps = sorted(set((c["id"], "accepted" if c["id"] in pl.tcases else "refused") for c in cases if c["fam"] == "FS"))
    evidence_pair(pid, tier, pl, verdict, nbad, t0, "FX: sequences of load/store/strobe/asm/csleep and ordinary statements (also inside if and for) compiled at -O0/-O1/-O2: the io log of the "
                  "6502 model (accesses to the port cells, in order, with values) must equal the explicit accesses CSem prescribes, at every level, and all levels must agree. "
                  "FS: csleep(n), n = 0..12, alone / between assignments / between load and store / in a loop, against the same program without it: cycle difference exactly n "
                  "(Enc6502 cycle table), identical final state.", dict(fx_generated=total, csleep_cases=len(fs), csleep_accepted=sum(1 for s in sleeps if s[1] == "accepted")))
    return verdict.finish()


REGISTRY["C18"] = c18


# ---------------------------------------------------------------------------------------------
# C11: comments, layout and listing options never affect behaviour
# ---------------------------------------------------------------------------------------------
DECO_TEXT = {
    "space": " ", "tab": "\t", "newline": "\n", "crlf": "\r\n", "blank2": "\n \n", "splice": "\\\n", "splice_crlf": "\\\r\n", "splice2": "\\\n\\\n",
    "blk_plain": "/* note */", "blk_dq": '/* " */', "blk_sq": "/* ' */", "blk_slsl": "/* // not a line comment */", "blk_open": "/* /* still one comment */",
    "blk_define": "/* #define X 1 */", "blk_url": "/* http://x/*y */", "blk_stars": "/*** boxed ***/", "blk_multi": "/* first\n * second\n */", "tighten": "", "blk_tight": "/*c*/", "blk_slash": "/*/ char hidden9; /*/", "blk_empty": "/**/",
    "line_plain": "// note\n", "line_dq": '// "quoted\n', "line_blk": "// /* not a block\n", "line_end": "// */ stray\n", "line_define": "//#define X 1\n",
}
_TOK11 = re.compile(r'"(?:[^"\\\n]|\\.)*"|\'(?:[^\'\\\n]|\\.)*\'|[A-Za-z_][A-Za-z0-9_]*|0x[0-9a-fA-F]+|\d+|<<=|>>=|\+\+|--|&&|\|\||<<|>>|<=|>=|==|!=|\+=|-=|&=|\|=|\^=|\S')


def gaps_of(src):
    """positions between two adjacent tokens, outside preprocessor lines"""
    out = []
    pos = 0
    for line in src.split("\n"):
        if not line.lstrip().startswith("#"):
            toks = [(m.start() + pos, m.end() + pos) for m in _TOK11.finditer(line)]
            for (a, b), (c, d) in zip(toks, toks[1:]):
                out.append((b, c))
        pos += len(line) + 1
    return out


def macro_context(src, gap):
    """'call-gap': the gap is between the name of a function-like macro and the ( of its call; 'in-args': inside the
    parentheses of such a call; '' otherwise"""
    names = set(re.findall(r"^[ \t]*#[ \t]*define[ \t]+([A-Za-z_]\w*)\(", src, re.M))
    if not names:
        return ""
    before, after = src[:gap[0]], src[gap[1]:]
    m = re.search(r"([A-Za-z_]\w*)$", before)
    if m and m.group(1) in names and after.startswith("("):
        return "call-gap"
    depth = 0
    i = len(before) - 1
    while i >= 0 and before[i] != "\n":
        ch = before[i]
        if ch == ")":
            depth += 1
        elif ch == "(":
            if depth == 0:
                m = re.search(r"([A-Za-z_]\w*)\s*$", before[:i])
                return "in-args" if m and m.group(1) in names else ""
            depth -= 1
        i -= 1
    return ""


def decorate(src, gap, deco, tight=False):
    b, c = gap
    text = DECO_TEXT[deco]
    if tight:
        return src[:b] + text + src[c:]             # the decoration replaces the layout between the two tokens
    return src[:b] + src[b:c] + " " + text + " " + src[c:] if not text.endswith("\n") else src[:b] + " " + text + src[b:c] + src[c:]


def code_view(o):
    """what must not change: declared variables and functions, and the emitted lines (comments and removed slots apart)"""
    vs = [(v["name"], v["type"], v["mem"], v["size"], v["const"], v["signed"], json.dumps(v["def"], sort_keys=True)) for v in o["vars"]]
    fs = [(f["name"], f["inline"], f["bank"], [(l["k"], l.get("mn"), l.get("op"), l.get("name"), l.get("text")) for l in (f.get("lines") or []) if l["k"] in ("i", "l", "a")]) for f in o["funcs"]]
    return vs, fs


def c11(tier):
    t0 = time.time()
    pid = "C11"
    verdict = common.Verdict(pid)
    progs, _ = checks_refine.sample_programs("quick", fams=["F1a", "F1e", "F2a", "F2c", "F3a", "F3c", "F4", "F5a", "F5b", "F7a"], name="c11", scale=0.02 if tier == "quick" else 0.06)
    corpus = [vocab.source(p["body"], sorted(render.calls_in(p["body"]))) for p in progs]
    from . import checks_misc
    extra = [s for s in checks_misc.repo_test_inputs() if "#include" not in s and "##" not in s]
    rnd = random.Random(common.seed())
    corpus += rnd.sample(extra, min(len(extra), 25 if tier == "quick" else 120))
    # keep the programs the compiler accepts as they are
    obs0 = common.run_harness("compile", [dict(id=i, src=s, variants=[dict(name="O1", args=["-O1"])]) for i, s in enumerate(corpus)], "c11a")
    corpus = [s for s, ob in zip(corpus, obs0) if ob and ob[0].get("status") == "ok"]
    d = common.workdir("gen_c11")
    cfg = os.path.join(d, "GenDecor.cfg")
    ngaps = 6 if tier == "quick" else 16
    open(cfg, "w").write("CONSTANTS NProgs = %d\n NGaps = %d\nINIT Init\nNEXT Next\nINVARIANT Neutral\nINVARIANT Emit\nCHECK_DEADLOCK FALSE\n" % (len(corpus), ngaps))
    res = common.run_tlc("GenDecor", cfg=cfg, name="gen_c11", tags={"CASE"}, workers=4, heap="4g")
    if res.violated_invariant:
        raise common.ToolError("decoration menu is not token-neutral by Lexer.tla: " + res.raw_tail[-800:])
    common.require_ok(res, "GenDecor")
    gen = sorted([o for (_, o) in res.lines], key=lambda o: (o["p"], o["g"], o["d"]))
    cases = []
    for o in gen:
        src = corpus[o["p"] - 1]
        gs = gaps_of(src)
        if not gs:
            continue
        gap = gs[(o["g"] * 7919 + o["p"] * 31) % len(gs)]
        dname = o["d"]
        if dname == "tighten":
            opch = "+-<>&|=!/*^%"
            safe = [g for g in gs if g[0] < g[1] and g[0] > 0 and g[1] < len(src)
                    and not (re.match(r"\w", src[g[0] - 1]) and re.match(r"\w", src[g[1]]))
                    and not (src[g[0] - 1] in opch and src[g[1]] in opch) and src[g[0] - 1] not in "\"'" and src[g[1]] not in "\"'"]
            if not safe:
                continue
            gap = safe[(o["g"] * 7919 + o["p"] * 31) % len(safe)]
            dname = "tighten:%s|%s" % (re.search(r"(\w+|\S)$", src[:gap[0]]).group(1), re.match(r"(\w+|\S)", src[gap[1]:]).group(1))
        for tight in ((True,) if o["d"] == "tighten" else (False, True) if o["d"].startswith("blk") else (False,)):
            if tight and src[gap[0]:gap[1]] == "":
                continue        # the two tokens touch: nothing to replace
            dec = decorate(src, gap, o["d"], tight)
            cases.append(dict(id=len(cases), src=src, _dec=dec, _deco=(dname if o["d"] == "tighten" else o["d"] + ("/tight" if tight else "")), _mctx=macro_context(src, gap), _nl=("\n" in DECO_TEXT[o["d"]]), _gap=src[max(0, gap[0] - 12):gap[1] + 12],
                              variants=[dict(name="plain-O1", args=["-O1"], src=src), dict(name="deco-O1", args=["-O1"], src=dec),
                                        dict(name="deco-O0", args=["-O0"], src=dec), dict(name="plain-O0", args=["-O0"], src=src)]))
    # listing / warning options on the undecorated programs
    for s in corpus:
        cases.append(dict(id=len(cases), src=s, _dec=s, _deco="options", _gap="", cfg=dict(text=True),
                          variants=[dict(name="plain-O1", args=["-O1"], src=s), dict(name="deco-O1", args=["-O1", "--insert-code"], src=s),
                                    dict(name="deco-O0", args=["-O0", "-W", "all"], src=s), dict(name="plain-O0", args=["-O0"], src=s)]))
    obs = common.run_harness("compile", [{k: v for k, v in c.items() if not k.startswith("_")} for c in cases], "c11")
    kf = {}
    for fd in verdict.findings:
        for k in fd.get("cases", []):
            kf[k] = fd["id"]
    same = differ_text = 0
    fallback = []
    from . import asmcheck
    for c, ob in zip(cases, obs):
        by = {o.get("variant"): o for o in ob}
        if c["_deco"] == "options":
            # with the listing options on, the text handed to the assembler must still spell the generated instructions
            for vn in ("deco-O1", "deco-O0"):
                o = by.get(vn)
                for f in (o.get("funcs") or []) if o and o.get("status") == "ok" else []:
                    tm = asmcheck.text_mismatch(f) if "text_plain" in f else None
                    if tm:
                        verdict.violation("listing options: the written text of %s differs from the generated code: %s" % (f["name"], tm),
                                          dict(property=pid, decoration="options", plain=c["src"], function=f["name"], detail=tm, text=f.get("text")))
        for lvl in ("O1", "O0"):
            a, b = by.get("plain-" + lvl), by.get("deco-" + lvl)
            if not a or not b or a.get("status") != "ok":
                continue
            problem = None
            if b.get("status") != "ok":
                problem = "decorated program is %s: %s" % (b.get("status"), json.dumps(b.get("err", b.get("panic")))[:120])
            else:
                va, fa = code_view(a)
                vb, fb = code_view(b)
                if va != vb:
                    problem = "declared variables differ"
                elif [f[:3] for f in fa] != [f[:3] for f in fb]:
                    problem = "declared functions differ"
                elif fa != fb:
                    differ_text += 1
                    fallback.append((c, lvl, a, b))
                    continue
                else:
                    same += 1
                    continue
            keys = ["deco:" + c["_deco"]]
            if c.get("_mctx") == "call-gap" and c.get("_nl"):
                keys.append("gap:fnmacro-call-newline")     # (layout on the same line between the name and the parenthesis expands since a7f78ce)
            if c.get("_mctx") == "in-args" and c.get("_nl"):
                keys.append("gap:fnmacro-args-newline")
            hit = [kf[k] for k in keys if k in kf]
            if hit:
                verdict.attribute(hit[0])
                continue
            verdict.violation("%s between `%s` at -%s: %s" % (c["_deco"], c["_gap"].replace("\n", "\\n"), lvl, problem),
                              dict(property=pid, decoration=c["_deco"], where=c["_gap"], level=lvl, problem=problem, plain=c["src"], decorated=c["_dec"]))
    # emitted text differs (e.g. a listing comment between a JMP and its label): decide by execution
    tcases = []
    for n, (c, lvl, a, b) in enumerate(fallback):
        try:
            addr, regs, rom, consts = link.layout(a["vars"])
            code_a, ea, _ = link.link(a["funcs"], addr)
            code_b, eb, _ = link.link(b["funcs"], addr)
        except link.LinkError as e:
            verdict.violation("emitted code differs and does not link: %s" % e, dict(property=pid, decoration=c["_deco"], plain=c["src"], decorated=c["_dec"], error=str(e)))
            continue
        vt = {}
        for v in a["vars"]:
            nme = v["name"]
            if nme not in addr or v["mem"] == "Dummy" or (v["def"] is not None and "value" in v["def"]):
                continue
            t = v["type"]
            if v["size"] > 1:
                vt[nme] = dict(kind="a", w=8 if t == "CharPtr" else 16, sg=False, n=v["size"], addr=addr[nme], io=False)
            else:
                vt[nme] = dict(kind="p" if t in ("CharPtr", "CharPtrPtr", "ShortPtr") else "s", w=16 if t == "Short" else 8, sg=False, n=1, addr=addr[nme], io=False)
        vt["X"] = dict(kind="s", w=8, sg=False, n=1, addr=-1, io=False)
        vt["Y"] = dict(kind="s", w=8, sg=False, n=1, addr=-2, io=False)
        inputs = []
        r2 = random.Random(n)
        for _ in range(6):
            inp = {}
            for nme, dd in vt.items():
                if dd["kind"] == "a":
                    inp[nme] = [(rom.get(dd["addr"] + i, r2.choice([0, 1, 3, 128, 255])) if dd["w"] == 8 else r2.choice([0, 1, 255, 256, 65535])) for i in range(dd["n"])]
                else:
                    inp[nme] = r2.choice([0, 1, 2, 127, 128, 255]) if dd["w"] == 8 and dd["kind"] == "s" else r2.choice([0, 1, 255, 256, 40000])
            inp["X"], inp["Y"] = r2.choice([0, 1, 2]), r2.choice([0, 1, 2])
            inputs.append(dict(inp=inp, ex={}, bound=3000))
        tcases.append(dict(id="fb%d" % n, vt=vt, fs={}, body=[], fuel=1, obs=[x for x in vt if x not in ("X", "Y") and not (a_rom(vt[x], rom))], regions=regs,
                           variants=[dict(name="plain", code=code_a, entry=ea), dict(name="decorated", code=code_b, entry=eb)], tmp=link.TMP_ADDR, prefix=False, cycdiff=-1,
                           sem=False, pair=True, inputs=inputs, _c=c, _lvl=lvl))
    states = res.distinct
    if tcases:
        mms, cut, rres = refine.run_tcases("c11", tcases)
        states += rres.distinct
        byid = {t["id"]: t for t in tcases}
        seen = set()
        for m in mms:
            if m["id"] in seen:
                continue
            seen.add(m["id"])
            t = byid[m["id"]]
            c = t["_c"]
            key = "deco:" + c["_deco"]
            if key in kf:
                verdict.attribute(kf[key])
                continue
            verdict.violation("%s changes the behaviour of the emitted code at -%s" % (c["_deco"], t["_lvl"]),
                              dict(property=pid, decoration=c["_deco"], where=c["_gap"], plain=c["src"], decorated=c["_dec"], input=t["inputs"][m["k"] - 1]["inp"], got=m["got"], want=m["want"]))
    if (same < 200) and not verdict.violations:      # (a run that found violations reports them)
        raise common.ToolError("vacuous: only %d comparisons" % same)
    # ---- Layer 2: CppScan.tla (the comment / string scanner of cpp::process as coded): model-checked against the textbook scanner on every
    # text within the bound, bound to the real preprocessor by replay; the real output is also judged against the textbook result
    from . import cppscan
    sdistinct, snconfs, sdrift, stext, _sl = cppscan.run_both(tier, "c11")
    if sdrift:
        print("[vf] NOTE: cpp::process no longer behaves like CppScan.tla on %d of %d replayed texts (model drift), e.g. %s" % (len(sdrift), snconfs, json.dumps(sdrift[0])[:400]))
    for v in stext:
        verdict.violation("comment / layout scanner: %r is emitted as %r, the textbook scanner gives %r" % (v["text"], v["emitted"], v["textbook"]),
                          dict(property=pid, layer="CppScan", text=v["text"], emitted=v["emitted"], textbook=v["textbook"]))
    layer2 = dict(texts_model_checked=sdistinct, max_characters=6 if tier == "quick" else 7, max_pieces=4 if tier == "quick" else 5, invariants=["TextReq", "LitReq", "CommentReq", "LinesReq"],
                  deviation_classes_excluded=["HasQuoteInChar", "HasLongEscape", "HasSpliceCascade"],
                  texts_replayed_into_cpp_process=snconfs, model_conformant=(len(sdrift) == 0), first_drift=(sdrift[0] if sdrift else None), drifts=len(sdrift),
                  real_output_differs_from_textbook=len(stext))
    states += sdistinct
    cov = dict(states=states, transitions=res.generated, traces_validated_against_impl=same + differ_text + snconfs, layer2_CppScan=layer2,
               samples=[dict(decoration=c["_deco"], decorated=c["_dec"]) for c in cases[5:8]],
               corpus_programs=len(corpus), decorated_programs=len(cases), comparisons_textually_equal=same, comparisons_decided_by_execution=differ_text,
               decorations=sorted(DECO_TEXT), attributed_to_known_findings=verdict.known, exhaustive=False,
               explanation="GenDecor.tla enumerates (program, gap between two adjacent tokens, decoration) and checks with Lexer.tla that every decoration is token-neutral; "
                           "the decorated and the plain program are compiled at -O0 and -O1 (plus --insert-code and -W all on the plain text): declared variables and functions and the "
                           "emitted instruction/label lines must be equal; where the emitted text differs, Refine.tla decides by executing both on the 6502 model.")
    common.write_evidence(pid, tier, "model_checking", cov, time.time() - t0, len(verdict.violations), ["gaps inside preprocessor directive lines are not decorated"])
    return verdict.finish(max_print=12)


def a_rom(d, rom):
    return d["addr"] in rom


from . import link
REGISTRY["C11"] = c11
