"""C14 (inlining), C15 (equivalent source forms), C17 (split-port RAM), C18 (timing / hardware access), C11 (layout)."""
import itertools, json, os, random, re, time
from . import common, refine, vocab, render, sig, checks_refine
from .common import log

REGISTRY = {}


def evidence_pair(pid, tier, pl, verdict, nbad, t0, explanation, extra=None):
    st = pl.stats
    if st["programs"] - st["rejected"] - st["crashed"] - st["linkerr"] < 10:
        raise common.ToolError("vacuous run: %s" % json.dumps(st))
    cov = dict(programs=st["programs"], disagreements_checked=nbad, samples=pl.samples[:4], states=st["states"], transitions=st["transitions"],
               traces_validated_against_impl=st["behaviours"], accepted=st["programs"] - st["rejected"] - st["crashed"], rejected_by_compiler=st["rejected"],
               reject_reasons=st["reject_reasons"], link_errors=st["linkerr"], inputs=st["inputs"], inputs_decided_by_source_semantics=st["src_ok"],
               variants_identical_not_re_executed=st["identical_variants"], reference_runs_cut_at_bound=st["cut"],
               attributed_to_known_findings=verdict.known, exhaustive=(tier == "thorough"), explanation=explanation)
    cov.update(extra or {})
    common.write_evidence(pid, tier, "translation_validation", cov, time.time() - t0, len(verdict.violations), ["6502 model as for C01", "harness layout/linker"])


# ---------------------------------------------------------------------------------------------
# C14: inlining is transparent
# ---------------------------------------------------------------------------------------------
def c14(tier):
    t0 = time.time()
    pid = "C14"
    verdict = common.Verdict(pid)
    progs, total = checks_refine.sample_programs(tier, fams=["F5a", "F5b", "F6"], name="c14", scale=1.5)
    cases, bodies = [], {}
    for i, p in enumerate(progs):
        used = vocab.closure(sorted(render.calls_in(p["body"])))
        if not used:
            continue
        subsets = [s for k in range(1, len(used) + 1) for s in itertools.combinations(used, k)]
        if tier == "quick" and len(subsets) > 4:
            rnd = random.Random(i)
            subsets = [tuple(used)] + rnd.sample(subsets[:-1], 3)
        vs = [dict(name="noinline", args=["-O1"], src=vocab.source(p["body"], used))]
        for s in subsets:
            vs.append(dict(name="inline:" + "+".join(s), args=["-O1"], src=vocab.source(p["body"], used, inline=s)))
        cid = "%s-%05d" % (p["fam"], i)
        cases.append(dict(id=cid, fam=p["fam"], body=None, in_body=p["body"], fnames=used, variants=vs, small=(p["fam"] == "F6")))
        bodies[cid] = p["body"]
    pl = refine.Pipeline("c14", tier=tier)
    pl.run(cases, sem=False, pair=True, maxin=12 if tier == "quick" else 32)
    nbad = checks_refine.judge(pl, verdict, pid, checks_refine.finding_signatures(pid), bodies)
    evidence_pair(pid, tier, pl, verdict, nbad, t0, "Programs with calls (families F5a, F5b, F6: arguments, results in larger expressions, nested calls, callee bodies with loops, early returns, "
                  "switch, locals) are compiled with no function inline and with subsets of the called functions declared inline; Refine.tla runs the non-inline code, then each "
                  "inline variant from the same input and requires equal final variables, X, Y, faults and termination.")
    return verdict.finish()


REGISTRY["C14"] = c14


# ---------------------------------------------------------------------------------------------
# C15: equivalent source forms behave identically
# ---------------------------------------------------------------------------------------------
def c15(tier):
    t0 = time.time()
    pid = "C15"
    verdict = common.Verdict(pid)
    pairs = refine.gen_programs(["RW"], "c15", which="RW")
    total = len(pairs)
    if tier == "quick" and len(pairs) > 1600:
        rnd = random.Random(common.seed())
        byrule = {}
        for p in pairs:
            byrule.setdefault(p["rule"], []).append(p)
        pairs = []
        for r, ps in sorted(byrule.items()):
            pairs += rnd.sample(ps, min(len(ps), 200))
    cases, bodies = [], {}
    for i, p in enumerate(pairs):
        fn = sorted(render.calls_in(p["body"]) | render.calls_in(p["body2"]))
        cid = "%s-%05d" % (p["rule"], i)
        both = [dict(k="block", b=p["body"]), dict(k="block", b=p["body2"])]
        cases.append(dict(id=cid, fam=p["rule"], body=None, in_body=both, fnames=fn, small=(p["rule"] in ("forwhile",)),
                          variants=[dict(name="A", args=["-O1"], src=vocab.source(p["body"], fn)), dict(name="B", args=["-O1"], src=vocab.source(p["body2"], fn))]))
        bodies[cid] = p["body"]
        bodies[cid + "#B"] = p["body2"]
    pl = refine.Pipeline("c15", tier=tier)
    pl.run(cases, sem=False, pair=True, maxin=16 if tier == "quick" else 48)
    sm = checks_refine.finding_signatures(pid)
    sm01 = checks_refine.finding_signatures("C01")     # a side that C01 already knows to be miscompiled explains a difference

    def key(cid, sg):
        sb = sig.signature(bodies[cid + "#B"])
        for s in (sg, sb):
            if s in sm:
                return s
        for s in (sg, sb):
            if s in sm01:
                sm[s] = "KF-C15-c01-defect"
                return s
        return sg
    nbad = checks_refine.judge(pl, verdict, pid, sm, bodies, extra_key=key)
    rules = sorted(set(p["rule"] for p in pairs))
    evidence_pair(pid, tier, pl, verdict, nbad, t0, "GenProg.tla's RW family enumerates program pairs related by the nine transformations of the property (%s); both forms are compiled and "
                  "Refine.tla requires equal final states from every input.  A form the compiler refuses makes the pair undecided." % ", ".join(rules), dict(pairs_generated=total, rules=rules))
    return verdict.finish()


REGISTRY["C15"] = c15


# ---------------------------------------------------------------------------------------------
# C17: split-port cartridge RAM
# ---------------------------------------------------------------------------------------------
SPLIT_PLACEMENTS = [
    ("sc_ab", {"a": "superchip", "b": "superchip", "arr": "superchip"}, "4K", []),
    ("sc_16", {"s": "superchip", "ss": "superchip", "sarr": "superchip", "t": "superchip"}, "4K", []),
    ("sc_all", {n: "superchip" for n in ("a", "b", "c", "sa", "s", "t", "ss", "arr", "sarr")}, "4K", []),
    ("3E_ab", {"a": "bank1", "b": "bank1", "arr": "bank1", "s": "bank1"}, "3E", ["-D__3E__"]),
    ("3EP_all", {n: "bank1" for n in ("a", "b", "c", "sa", "s", "ss", "arr", "sarr")}, "3EP", ["-D__3E_PLUS__"]),
    ("plain", None, "4K", []),      # control group: ordinary variables are unaffected
]


def c17(tier):
    t0 = time.time()
    pid = "C17"
    verdict = common.Verdict(pid)
    fams = ["F1a", "F1b", "F1d", "F1e", "F1g", "F2a", "F2b", "F3a", "F3b", "F5a", "F7a"]
    progs, total = checks_refine.sample_programs(tier, fams=fams, name="c17", scale=0.35)
    cases, bodies = [], {}
    rnd = random.Random(common.seed() + 17)
    for i, p in enumerate(progs):
        fn = sorted(render.calls_in(p["body"]))
        pls = SPLIT_PLACEMENTS if tier == "thorough" else rnd.sample(SPLIT_PLACEMENTS[:5], 2) + ([SPLIT_PLACEMENTS[5]] if i % 6 == 0 else [])
        for (pn, place, scheme, dargs) in pls:
            cid = "%s-%05d-%s" % (p["fam"], i, pn)
            cases.append(dict(id=cid, fam=p["fam"], body=p["body"], fnames=fn, _pl=pn,
                              variants=[dict(name="O1", args=["-O1"] + dargs, src=vocab.source(p["body"], fn, place=place), scheme=scheme)]))
            bodies[cid] = p["body"]
    pl = refine.Pipeline("c17", flavour="atari2600", tier=tier)
    pl.run(cases, sem=True, pair=False, maxin=10 if tier == "quick" else 32, small_fams=checks_refine.SMALL_FAMS)
    sm = dict(checks_refine.finding_signatures(pid))
    sm01 = checks_refine.finding_signatures("C01")
    placement = {c["id"]: c["_pl"] for c in cases}

    triggers = [(re.compile(f["sig_regex"]), f.get("fault"), f["id"]) for f in verdict.findings if f.get("sig_regex")]

    def key(cid, sg):
        k = "%s @%s" % (sg, placement[cid])
        if k in sm:
            return k
        bad = [m for m in pl.mismatches if m["id"] == cid]
        fl = set(f for m in bad for f in m["fault"])
        # class-level finding: a shape (regular expression over the signature) together with the machine fault it produces
        for rx, fault, fid in triggers:
            if placement[cid] != "plain" and rx.search(sg) and (fault is None or fault in fl) and fl <= {fault, "unmapped"}:
                sm[k] = fid
                return k
        # a miscompilation that C01 already lists (independent of placement) is not a split-port defect
        # (its out-of-bounds accesses may land anywhere, so the faults it raises are not informative)
        if sg in sm01:
            sm[sg] = "KF-C17-c01-defect"
            return sg
        return k
    nbad = checks_refine.judge(pl, verdict, pid, sm, bodies, extra_key=key)
    faults = {}
    for m in pl.mismatches:
        for f in m["fault"]:
            faults[f] = faults.get(f, 0) + 1
    evidence_pair(pid, tier, pl, verdict, nbad, t0, "GenProg programs are compiled (feature atari2600) with subsets of the variables declared superchip, or bank-resident RAM under 3E / 3E+; "
                  "the 6502 model's split-port memory classes fault on a read of a write port, a write to a read port and any read-modify-write on either; the final "
                  "state must also equal what CSem prescribes.", dict(placements=[p[0] for p in SPLIT_PLACEMENTS], machine_faults_seen=faults))
    return verdict.finish()


REGISTRY["C17"] = c17
