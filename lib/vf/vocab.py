"""The fixed vocabulary of generated programs: declarations and the function library.
The source-side variable table (vt) handed to CSem is derived from THESE declarations, not from the
compiler's symbol table, so that a compiler that records a wrong type is not mirrored by the oracle."""
from . import render

# name, C declaration, kind, width, signed, n
DECLS = [
    dict(name="a", c="unsigned char a", kind="s", w=8, sg=False, n=1),
    dict(name="b", c="unsigned char b", kind="s", w=8, sg=False, n=1),
    dict(name="c", c="unsigned char c", kind="s", w=8, sg=False, n=1),
    dict(name="sa", c="signed char sa", kind="s", w=8, sg=True, n=1),
    dict(name="sb", c="signed char sb", kind="s", w=8, sg=True, n=1),
    dict(name="s", c="unsigned short s", kind="s", w=16, sg=False, n=1),
    dict(name="t", c="unsigned short t", kind="s", w=16, sg=False, n=1),
    dict(name="ss", c="short ss", kind="s", w=16, sg=True, n=1),
    dict(name="arr", c="unsigned char arr[8]", kind="a", w=8, sg=False, n=8),
    dict(name="sarr", c="unsigned short sarr[4]", kind="a", w=16, sg=False, n=4),
    dict(name="tab", c="const unsigned char tab[4] = {3, 60, 129, 250}", kind="a", w=8, sg=False, n=4, rom=[3, 60, 129, 250]),
    dict(name="p", c="char *p", kind="p", w=8, sg=False, n=1),
    dict(name="sca", c="signed char sca[4]", kind="a", w=8, sg=True, n=4),
    # plain char objects: their signedness is that of the -fsigned_char / -funsigned_char option
    dict(name="pc", c="char pc", kind="s", w=8, sg=False, n=1),
    dict(name="pca", c="char pca[4]", kind="a", w=8, sg=False, n=4),
    # identifiers that begin with a keyword
    dict(name="elsev", c="unsigned char elsev", kind="s", w=8, sg=False, n=1),
    dict(name="returnv", c="unsigned char returnv", kind="s", w=8, sg=False, n=1),
    dict(name="dov", c="unsigned char dov", kind="s", w=8, sg=False, n=1),
]
DECL = {d["name"]: d for d in DECLS}


def V(n):
    return {"k": "var", "name": n}


def N(n):
    return {"k": "num", "n": n}


# function library: C text, parameter cells (name, width), body AST for CSem
FUNCS = {
    "f": dict(c="char f(char x) { return x + 1; }", params=[("f_x", 8)],
              body=[{"k": "return", "e": {"k": "bin", "op": "+", "l": V("f_x"), "r": N(1)}}], calls=[]),
    "g": dict(c="char g(char x, char y) { return x - y; }", params=[("g_x", 8), ("g_y", 8)],
              body=[{"k": "return", "e": {"k": "bin", "op": "-", "l": V("g_x"), "r": V("g_y")}}], calls=[]),
    "k": dict(c="char k() { return 7; }", params=[], body=[{"k": "return", "e": N(7)}], calls=[]),
    # leaves the carry set when it returns (no borrow in the subtraction) - for what the caller believes about the carry
    "hs": dict(c="void hs() { b = b - 1; }", params=[], body=[{"k": "expr", "e": {"k": "asg", "op": "=", "lhs": V("b"), "e": {"k": "bin", "op": "-", "l": V("b"), "r": N(1)}}}], calls=[]),
    "h": dict(c="void h() { a++; }", params=[],
              body=[{"k": "expr", "e": {"k": "inc", "pre": False, "d": 1, "lhs": V("a")}}], calls=[]),
    "w": dict(c="void w(char x) { c = x; }", params=[("w_x", 8)],
              body=[{"k": "expr", "e": {"k": "asg", "op": "=", "lhs": V("c"), "e": V("w_x")}}], calls=[]),
    # parameter spelled like the global a: it shadows the global inside the function
    "shd": dict(c="char shd(char a) { a = a + 1; return a; }", params=[("shd_a", 8)],
                body=[{"k": "expr", "e": {"k": "asg", "op": "=", "lhs": V("shd_a"), "e": {"k": "bin", "op": "+", "l": V("shd_a"), "r": N(1)}}}, {"k": "return", "e": V("shd_a")}], calls=[]),
    "r2": dict(c="char r2() { if (a) return 2; return 1; }", params=[],
               body=[{"k": "if", "c": V("a"), "t": [{"k": "return", "e": N(2)}], "e": []}, {"k": "return", "e": N(1)}], calls=[]),
    "r3": dict(c="char r3(char x) { if (x == 1) return 7; if (x < 1) return 9; return x; }", params=[("r3_x", 8)],
               body=[{"k": "if", "c": {"k": "bin", "op": "==", "l": V("r3_x"), "r": N(1)}, "t": [{"k": "return", "e": N(7)}], "e": []},
                     {"k": "if", "c": {"k": "bin", "op": "<", "l": V("r3_x"), "r": N(1)}, "t": [{"k": "return", "e": N(9)}], "e": []}, {"k": "return", "e": V("r3_x")}], calls=[]),
    # signed parameter compared with a positive constant (BMI/BPL paths), with an if of its own
    "sgn": dict(c="char sgn(signed char v) { if (v >= 1) { if (v >= 100) return 2; return 1; } return 0; }", params=[("sgn_v", 8, True)],
                body=[{"k": "if", "c": {"k": "bin", "op": ">=", "l": V("sgn_v"), "r": N(1)},
                       "t": [{"k": "if", "c": {"k": "bin", "op": ">=", "l": V("sgn_v"), "r": N(100)}, "t": [{"k": "return", "e": N(2)}], "e": []}, {"k": "return", "e": N(1)}], "e": []},
                      {"k": "return", "e": N(0)}], calls=[]),
    "z0": dict(c="void z0() { Y = 0; }", params=[], body=[{"k": "expr", "e": {"k": "asg", "op": "=", "lhs": V("Y"), "e": N(0)}}], calls=[]),
    "m2": dict(c="char m2(char x) { if (x < 4) return f(x); return x; }", params=[("m2_x", 8)],
               body=[{"k": "if", "c": {"k": "bin", "op": "<", "l": V("m2_x"), "r": N(4)},
                      "t": [{"k": "return", "e": {"k": "call", "f": "f", "args": [V("m2_x")]}}], "e": []},
                     {"k": "return", "e": V("m2_x")}], calls=["f"]),
    # functions used by the inlining checks (C14) only: no CSem body, compared variant against variant
    "lp": dict(c="char lp(char n) { char r; r = 0; while (n) { r += 2; n--; } return r; }", params=[("lp_n", 8)], body=None, calls=[]),
    "er": dict(c="char er(char x) { for (Y = 0; Y < 4; Y++) { if (arr[Y] == x) return Y; } return 9; }", params=[("er_x", 8)], body=None, calls=[]),
    "sw": dict(c="char sw(char x) { switch (x) { case 0: return 5; case 1: c++; break; default: c = x; } return c; }", params=[("sw_x", 8)], body=None, calls=[]),
    # a function whose result is a signed char
    "sf": dict(c="signed char sf(signed char v) { return v; }", params=[("sf_v", 8, True)], rsg=True, body=[{"k": "return", "e": V("sf_v")}], calls=[]),
    # a signed parameter followed by a plain one: s receives v zero-extended, ss receives u sign-extended
    "ps": dict(c="void ps(signed char u, char v) { s = v; ss = u; }", params=[("ps_u", 8, True), ("ps_v", 8)],
               body=[{"k": "expr", "e": {"k": "asg", "op": "=", "lhs": V("s"), "e": V("ps_v")}}, {"k": "expr", "e": {"k": "asg", "op": "=", "lhs": V("ss"), "e": V("ps_u")}}], calls=[]),
    # > and <= tests (two-instruction sequences with a protected BEQ) inside functions that get inlined after constants are known
    "cle": dict(c="void cle() { if (X <= 3) { c = 1; } else { c = 2; } }", params=[],
                body=[{"k": "if", "c": {"k": "bin", "op": "<=", "l": V("X"), "r": N(3)}, "t": [{"k": "expr", "e": {"k": "asg", "op": "=", "lhs": V("c"), "e": N(1)}}],
                       "e": [{"k": "expr", "e": {"k": "asg", "op": "=", "lhs": V("c"), "e": N(2)}}]}], calls=[]),
    "cgt": dict(c="void cgt(char v) { if (v > 3) { c = 1; } else { c = 2; } }", params=[("cgt_v", 8)],
                body=[{"k": "if", "c": {"k": "bin", "op": ">", "l": V("cgt_v"), "r": N(3)}, "t": [{"k": "expr", "e": {"k": "asg", "op": "=", "lhs": V("c"), "e": N(1)}}],
                       "e": [{"k": "expr", "e": {"k": "asg", "op": "=", "lhs": V("c"), "e": N(2)}}]}], calls=[]),
    # the value returned is that of a postfix expression: the side effect must still happen
    "ri": dict(c="char ri() { return c++; }", params=[], body=[{"k": "return", "e": {"k": "inc", "pre": False, "d": 1, "lhs": V("c")}}], calls=[]),
    "rd2": dict(c="char rd2(char x) { return arr[x]--; }", params=[("rd2_x", 8)], body=[{"k": "return", "e": {"k": "inc", "pre": False, "d": -1, "lhs": {"k": "idx", "arr": "arr", "i": V("rd2_x")}}}], calls=[]),
    "ra": dict(c="char ra(char x) { return arr[x]; }", params=[("ra_x", 8)], body=[{"k": "return", "e": {"k": "idx", "arr": "arr", "i": V("ra_x")}}], calls=[]),
    # explicit hardware-access statements inside (inline) functions: they must survive inlining exactly once, in order (C18)
    "rdp": dict(c="void rdp() { load(*PORT1); }", params=[], body=[{"k": "load", "e": V("PORT1")}], calls=[]),
    "rda": dict(c="void rda() { load(a); store(*PORT2); }", params=[], body=[{"k": "load", "e": V("a")}, {"k": "store", "e": V("PORT2")}], calls=[]),
    "wrp": dict(c="void wrp() { store(*PORT2); }", params=[], body=[{"k": "store", "e": V("PORT2")}], calls=[]),
    "stb": dict(c="void stb() { strobe(PORT3); }", params=[], body=[{"k": "strobe", "name": "PORT3"}], calls=[]),
    "slp": dict(c="void slp() { csleep(7); }", params=[], body=[{"k": "csleep", "n": 7}], calls=[]),
    # the last statement is a switch whose cases end in return / a loop whose body ends in return (tail positions of an inline body)
    "swl": dict(c="char swl(char x) { switch (x) { case 1: c++; return 10; case 2: return 20; default: b = x; return x; } }", params=[("swl_x", 8)], body=None, calls=[]),
    "vl": dict(c="void vl(char x) { while (x) { x--; arr[X] = x; if (x == b) continue; c++; return; } }", params=[("vl_x", 8)], body=None, calls=[]),
    "n2": dict(c="char n2(char x) { return f(x) + f(f(x)); }", params=[("n2_x", 8)], body=None, calls=["f"]),
    "n3": dict(c="char n3(char x) { if (x < 3) return lp(x); return n2(x); }", params=[("n3_x", 8)], body=None, calls=["lp", "n2"]),
    "vd": dict(c="void vd(char x) { if (x) { arr[X] = x; return; } c = 7; }", params=[("vd_x", 8)], body=None, calls=[]),
}


def closure(fnames):
    out, todo = [], list(fnames)
    while todo:
        f = todo.pop()
        if f not in out:
            out.append(f)
            todo += FUNCS[f]["calls"]
    # definition order: callees first
    order = [f for f in FUNCS if f in out]
    return order


PORTS_C = "unsigned char * const PORT1 = 0x10;\nunsigned char * const PORT2 = 0x11;\nunsigned char * const PORT3 = 0x12;\n"
PORT_DECLS = [dict(name="PORT%d" % i, kind="s", w=8, sg=False, n=1, io=True) for i in (1, 2, 3)] + [dict(name="DUMMY", kind="s", w=8, sg=False, n=1, io=False, hidden=True)]


def header(decl_names=None, fnames=(), inline=(), place=None):
    """place: name -> memory qualifier prefix ("superchip", "ramchip", "bank1", ...)"""
    ds = [d for d in DECLS if decl_names is None or d["name"] in decl_names]
    s = "".join(((place or {}).get(d["name"], "") + " " + d["c"]).strip() + ";\n" for d in ds)
    for f in closure(fnames):
        s += ("inline " if f in inline else "") + FUNCS[f]["c"] + "\n"
    return s


def source(body, fnames=None, inline=(), decl_names=None, place=None, ports=False, natural=False):
    """natural: main's body written with minimal parentheses and braces (render.nstmts) instead of the canonical form"""
    fnames = sorted(render.calls_in(body)) if fnames is None else fnames
    return (PORTS_C if ports else "") + header(decl_names, fnames, inline, place) + "void main() {\n" + (render.nstmts(body) if natural else render.stmts(body)) + "}\n"


def vt_for(addr, fnames=(), extra=None):
    """variable table for CSem/Refine: name -> [kind, w, sg, n, addr, io]"""
    vt = {}
    for d in DECLS:
        if d["name"] in addr:
            vt[d["name"]] = dict(kind=d["kind"], w=d["w"], sg=d["sg"], n=d["n"], addr=addr[d["name"]], io=False)
    for f in closure(fnames):
        for prm in FUNCS[f]["params"]:
            pn, w = prm[0], prm[1]
            if pn in addr:
                vt[pn] = dict(kind="s", w=w, sg=(len(prm) > 2 and prm[2]), n=1, addr=addr[pn], io=False)
    for e in (extra or []):
        if e["name"] in addr:
            vt[e["name"]] = dict(kind=e["kind"], w=e["w"], sg=e["sg"], n=e["n"], addr=addr[e["name"]], io=e.get("io", False))
            if e.get("hidden"):
                vt[e["name"]]["hidden"] = True
    vt["X"] = dict(kind="s", w=8, sg=False, n=1, addr=-1, io=False)
    vt["Y"] = dict(kind="s", w=8, sg=False, n=1, addr=-2, io=False)
    return vt


def fs_for(fnames):
    return {f: dict(params=[p[0] for p in FUNCS[f]["params"]], body=FUNCS[f]["body"] or [], rsg=bool(FUNCS[f].get("rsg"))) for f in closure(fnames)}
