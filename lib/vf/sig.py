"""Shape signature of a program: the rendered main body with every variable replaced by its type
class (constants, operators and structure kept).  Known findings that are classes of inputs are
identified by the signatures ("call-site shapes") on which the compiler is known to be wrong."""
import re
from . import render, vocab

CLASS = {"a": "u8", "b": "u8", "c": "u8", "sa": "s8", "sb": "s8", "s": "u16", "t": "u16", "ss": "s16",
         "X": "R", "Y": "R", "arr": "A8", "sarr": "A16", "tab": "ROM", "p": "P", "sca": "SA8", "pc": "pc8", "pca": "PA8", "elsev": "u8", "returnv": "u8", "dov": "u8"}


def _abs(x, classes):
    if isinstance(x, dict):
        y = {}
        for k, v in x.items():
            if k in ("name", "arr", "p") and isinstance(v, str):
                y[k] = classes.get(v, v)
            elif k == "cname":
                y[k] = v            # the C spelling of a local (decl statements print it)
            else:
                y[k] = _abs(v, classes)
        return y
    if isinstance(x, list):
        return [_abs(v, classes) for v in x]
    return x


def signature(body, classes=None):
    cl = dict(CLASS)
    if classes:
        cl.update(classes)
    s = render.stmts(_abs(body, cl), 0)
    return re.sub(r"\s+", " ", s).strip()
