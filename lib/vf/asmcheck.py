"""Feeds emitted functions to Asm.tla (assembler oracle): C04 sizes, C13 legality/labels, C03 ranges."""
import json, os, re
from . import common, link


def func_records(cid, variant, obs, scheme="4K"):
    """obs: one harness observation with status ok -> list of function records for Asm.tla"""
    addr, regions, rom, consts = link.layout(obs["vars"], scheme)
    fnames = [f["name"] for f in obs["funcs"]]
    globs = fnames + ["Call" + n for n in fnames]
    out = []
    for f in obs["funcs"]:
        if f.get("lines") is None or f.get("inline"):
            continue    # prototypes; inline bodies are templates, never handed to the assembler on their own
        lines = []
        for l in f["lines"]:
            rec = dict(k=l["k"], name="", mn="", syn="none", val=0, lab="", nb=0, undef=False)
            if l["k"] == "l":
                rec["name"] = l["name"]
            elif l["k"] == "i":
                rec["mn"] = l["mn"]
                rec["nb"] = l["nb"]
                try:
                    syn, val, lab = link.parse_operand(l["mn"], l["op"], addr)
                    rec["syn"], rec["val"], rec["lab"] = syn, val, lab or ""
                except link.LinkError as e:
                    rec["undef"] = True
                    rec["lab"] = l["op"]
                    rec["syn"] = "plain"
                    rec["val"] = 65535
            elif l["k"] == "a":
                rec["nb"] = l["nb"]
                rec["name"] = l["text"]
            lines.append(rec)
        out.append(dict(id="%s/%s/%s" % (cid, variant, f["name"]), fn=f["name"], size=f["size"], globals=globs, lines=lines))
    return out


def text_mismatch(f):
    """The text AssemblyCode::write hands to the assembler (plain and with cycle annotations) must spell exactly the lines the
    structured view (hook H1) shows: same labels, mnemonics, operands, inline assembly, in order.  -> None or a description"""
    want = []
    for l in f.get("lines") or []:
        if l["k"] == "i":
            want.append(("i", (l["mn"] + " " + (l.get("op") or "")).strip()))
        elif l["k"] == "l":
            want.append(("l", l["name"]))
        elif l["k"] == "a":
            want.append(("i", " ".join(l["text"].split())))
    for key in ("text_plain", "text_cycles"):
        if key not in f:
            continue
        got = []
        for ln in f[key].split("\n"):
            if not ln.strip() or ln.startswith(";"):
                continue
            if ln[0] in " \t":
                t = ln
                if key == "text_cycles":
                    t = re.sub(r"\t; \d+(/\d+)?$", "", t)
                got.append(("i", " ".join(t.split())))
            else:
                got.append(("l", ln.strip()))
        if got != want:
            for i, (a, b) in enumerate(zip(got + [None] * len(want), want + [None] * len(got))):
                if a != b:
                    return "%s line %d: written %r, generated %r" % (key, i + 1, a, b)
    return None


def run(records, name, chunk=12000):
    """-> (list of AV dicts, TlcResult); the records are checked in chunks (TLC keeps the whole input file in memory)"""
    d = common.workdir("asm_" + name)
    avs = []

    def on(tag, o):
        avs.append(o)
    cfg = os.path.join(d, "Asm.cfg")
    open(cfg, "w").write("SPECIFICATION Spec\nINVARIANT Report\nCHECK_DEADLOCK FALSE\n")
    total = None
    for ci in range(0, max(1, len(records)), chunk):
        p = os.path.join(d, "funcs_%d.ndjson" % ci)
        with open(p, "w") as f:
            for r in records[ci:ci + chunk]:
                f.write(json.dumps(r) + "\n")
        res = common.run_tlc("Asm", cfg=cfg, env={"FUNCS": p}, name="asm_" + name, tags={"AV"}, on_line=on, timeout=3000)
        common.require_ok(res, "Asm")
        os.remove(p)
        if total is None:
            total = res
        else:
            total.distinct += res.distinct
            total.generated += res.generated
            total.wall += res.wall
    return avs, total
