"""Checks decided by the refinement pipeline (M6502 vs CSem, or variant vs variant)."""
import json, os, random, time
from . import common, refine, vocab, render, sig
from .common import log

SMALL_FAMS = ("F3a", "F3b", "F3c", "F4", "F4b", "F8f", "FG", "F5e", "FK", "F3e")
ALL_FAMS = ["F1a", "F1b", "F1c", "F1d", "F1e", "F1f", "F1g", "F2a", "F2b", "F2c", "F2z", "F2s", "F3a", "F3b", "F3c", "F3d", "F4", "F4b", "F5a", "F5b", "F5c", "F5d", "F7a", "F7b", "F7c", "F8", "F8g", "F8f", "F8h", "F9", "FL", "FW", "FP", "FG", "FT", "F5e", "FK", "F1n", "F2d", "F7d", "F3e", "F5f", "F5g", "F5h", "F3f", "F8i", "F2e", "FO"]
# quick-tier sample size per family (the thorough tier takes every program of every family)
QUICK_N = {"F1a": 500, "F1b": 250, "F1c": 150, "F1d": 250, "F1e": 100, "F1f": 250, "F1g": 100, "F2a": 400, "F2z": 60, "F2s": 60, "F2b": 63,
           "F2c": 120, "F3a": 150, "F3b": 80, "F3c": 12, "F4": 26, "F5a": 200, "F5b": 120, "F5c": 200, "F5d": 40, "F3d": 50, "F4b": 60, "F7a": 84, "F7b": 250, "F7c": 200, "F8": 400, "F8g": 450, "F8f": 80, "F9": 350, "FL": 80, "FW": 10, "F4": 60, "F3d": 60, "F3b": 81, "F2c": 136, "FK": 10, "F5g": 20, "F5f": 30, "F5h": 105, "F3f": 48, "F8i": 144}


SIGNED_PLAIN = [dict(name="pc", kind="s", w=8, sg=True, n=1), dict(name="pca", kind="a", w=8, sg=True, n=4)]


def sample_programs(tier, fams=None, scale=1.0, name="gen", quota=None):
    """quota: per-family override of the quick-tier sample size (None = every program of the family)"""
    fams = fams or ALL_FAMS
    progs = refine.gen_programs(fams, name)
    by = {}
    for p in progs:
        by.setdefault(p["fam"], []).append(p)
    out = []
    rnd = random.Random(common.seed())
    total = {}
    for f in fams:
        ps = by.get(f, [])
        total[f] = len(ps)
        if tier == "quick":
            n = int(QUICK_N.get(f, 100) * scale)
            if quota and f in quota:
                n = len(ps) if quota[f] is None else quota[f]
            if len(ps) > n:
                ps = rnd.sample(ps, n)
        out += ps
    return out, total


def finding_signatures(pid):
    m = {}
    for f in common.load_findings():
        if f["property"] == pid and f.get("status") == "open":
            for s in f.get("signatures", []):
                m[s] = f["id"]
    return m


def finding_diffvars(pid):
    """signature -> the variables (and #fault / #nohalt) that differed for programs of that shape when the finding was recorded"""
    m = {}
    for f in common.load_findings():
        if f["property"] == pid and f.get("status") == "open":
            for s, vs in f.get("diffvars", {}).items():
                m[s] = set(vs)
    return m


def diff_vars(ms):
    out = set()
    for m in ms:
        out |= set(x for x in m["want"] if m["got"].get(x) != m["want"].get(x))
        if m.get("fault"):
            out.add("#fault")
        if not m.get("halted", True):
            out.add("#nohalt")
    return out


def judge(pl, verdict, pid, sigmap, bodies, extra_key=None, diffmap=None):
    """Turn the pipeline's mismatches into attributions / violations. One violation per program.
    diffmap: a listed shape is attributed only if nothing differs that did not differ when it was listed."""
    bad = {}
    for m in pl.mismatches:
        bad.setdefault(m["id"], []).append(m)
    for cid, ms in sorted(bad.items()):
        t = pl.tcases[cid]
        sg = sig.signature(bodies[cid]) if cid in bodies and bodies[cid] is not None else None
        key = sg if extra_key is None else extra_key(cid, sg)
        fid = sigmap.get(key)
        if fid and diffmap is not None and key in diffmap and not (diff_vars(ms) <= diffmap[key]):
            ms = [m for m in ms if not (diff_vars([m]) <= diffmap[key])] or ms
            fid = None       # a listed shape, but more goes wrong now than the listed defect explains
        if fid:
            verdict.attribute(fid)
            continue
        m = ms[0]
        inp = t["inputs"][m["k"] - 1]["inp"]
        diff = {x: {"got": m["got"].get(x), "want": m["want"].get(x)} for x in m["want"] if m["got"].get(x) != m["want"].get(x)}
        verdict.violation("%s %s: %s on input %s" % (m["kind"], cid, json.dumps(diff)[:160], json.dumps({k: v for k, v in inp.items() if not isinstance(v, list)})[:120]),
                          dict(property=pid, case=cid, signature=sg, source=t["_src"], kind=m["kind"], variant=m["v1"], variant2=m["vj"],
                               input=inp, ambient=m["amb"], halted=m["halted"], fault=m["fault"], steps=m["steps"], got=m["got"], want=m["want"],
                               diff=diff, n_failing_behaviours=len(ms),
                               code={v["name"]: ["%s %s %s ->%s" % (i["op"], i["syn"], i["a"], i["t"]) for i in v["code"]] for v in t["variants"]},
                               how_to_replay="python3 bin/check.py %s --replay <this file>" % pid))
    for c in pl.crashes:
        verdict.violation("compiler %s on accepted-looking program %s" % (c["outcome"], c["id"]), dict(property=pid, **c))
    return len(bad)


def c01(tier):
    t0 = time.time()
    pid = "C01"
    verdict = common.Verdict(pid)
    progs, total = sample_programs(tier, name="c01")
    cases, bodies = [], {}
    for i, p in enumerate(progs):
        fn = sorted(render.calls_in(p["body"]))
        src = vocab.source(p["body"], fn)
        cid = "%s-%05d" % (p["fam"], i)
        # -O1 is the default level; every third program is also checked at -O0
        vs = [dict(name="O1", args=["-O1"], src=src)]
        if i % 3 == 0:
            vs.append(dict(name="O0", args=["-O0"], src=src))
        cases.append(dict(id=cid, fam=p["fam"], body=p["body"], fnames=fn, variants=vs, locals=p.get("locals")))
        bodies[cid] = p["body"]
        if p["fam"] == "FO":
            # the same program under the other char-signedness option: plain char objects are signed for the source semantics too
            cases.append(dict(id=cid + "-signed", fam=p["fam"], body=p["body"], fnames=fn, locals=p.get("locals"), extra_decl=SIGNED_PLAIN,
                              variants=[dict(name=v["name"], args=v["args"] + ["--fsigned_char"], src=src) for v in vs]))
            bodies[cid + "-signed"] = p["body"]
    pl = refine.Pipeline("c01", tier=tier)
    pl.run(cases, sem=True, pair=False, maxin=16 if tier == "quick" else 48, small_fams=SMALL_FAMS)
    nbad = judge(pl, verdict, pid, finding_signatures(pid), bodies, diffmap=finding_diffvars(pid))
    st = pl.stats
    if (st["programs"] - st["rejected"] - st["crashed"] - st["linkerr"] < 10 or st["src_ok"] < 100) and not verdict.violations:      # (a run that found violations reports them)
        raise common.ToolError("vacuous run: %s" % json.dumps(st))
    # ---- Layer 2: FlagProv.tla validates the generator's belief about the flags at every place where it relied on it (hook H3) while
    # compiling the corpus; an unjustified belief is a candidate: the program is executed again on many more inputs before anything is reported
    from . import flagprov
    events, fprog, fuses = flagprov.collect([dict(id=c["id"], src=c["variants"][0]["src"], args=c["variants"][0]["args"]) for c in cases], "c01")
    layer2 = dict(hook_available=common.FLAGS_HOOK[0], programs=fprog, uses_recorded=fuses, distinct_uses_validated=len(events))
    if events:
        fres, fver = flagprov.validate(events, "c01")
        cand = [ev for ev in events if not fver[ev["id"]]["ok"]]
        already = set(m["id"] for m in pl.mismatches)
        cids = sorted(set(ev["case"] for ev in cand) - already)
        layer2.update(states=fres.distinct, unjustified=len(cand), candidate_programs=len(cids),
                      first_candidates=[dict(case=ev["case"], belief=ev["belief"], flags_describe=fver[ev["id"]]["desc"],
                                             code_tail=["%s %s" % (l["mn"], l["op"]) if l["k"] == "i" else l["op"] + ":" for l in ev["lines"] if l["k"] in "il"][-8:]) for ev in cand[:5]])
        if cids:
            pl2 = refine.Pipeline("c01fp", tier=tier)
            pl2.run([c for c in cases if c["id"] in set(cids)], sem=True, pair=False, maxin=48, small_fams=SMALL_FAMS)      # the cap of the known-findings baseline: no input beyond it
            nbad2 = judge(pl2, verdict, pid, finding_signatures(pid), bodies, diffmap=finding_diffvars(pid))
            layer2.update(candidates_executed_on_more_inputs=pl2.stats["programs"], inputs=pl2.stats["inputs"], candidates_confirmed=nbad2)
            st["states"] += pl2.stats["states"]
            st["behaviours"] += pl2.stats["behaviours"]
            nbad += nbad2
    cov = dict(programs=st["programs"], disagreements_checked=nbad, samples=pl.samples[:5], layer2_FlagProv=layer2,
               states=st["states"], transitions=st["transitions"], traces_validated_against_impl=st["behaviours"],
               families={f: dict(total_in_family=total[f]) for f in total}, accepted=st["programs"] - st["rejected"] - st["crashed"],
               rejected_by_compiler=st["rejected"], reject_reasons=st["reject_reasons"], link_errors=st["linkerr"],
               inputs=st["inputs"], inputs_decided=st["src_ok"], inputs_ambiguous_between_readings=st["src_amb"],
               inputs_undefined_in_source=st["src_ub"], inputs_source_diverges=st["src_div"],
               attributed_to_known_findings=verdict.known, mnemonic_syntax_pairs_executed=sorted("%s/%s" % p for p in pl.mnemonic_modes),
               exhaustive=(tier == "thorough"),
               explanation="Each program of the GenProg families is compiled by the real compiler; its emitted code is executed by TLC on the "
                           "M6502 specification from every listed input and two ambient configurations; the halted state must equal the "
                           "state CSem prescribes (computed by TLC, both readings of the dialect agreeing).")
    common.write_evidence(pid, tier, "translation_validation", cov, time.time() - t0, len(verdict.violations),
                          ["6502 model: no decimal mode/interrupts/page-cross cycles", "layout and operand splitting done by the harness linker",
                           "inputs: boundary values, pairwise-style sample capped per program"])
    return verdict.finish()


def c02(tier):
    t0 = time.time()
    pid = "C02"
    verdict = common.Verdict(pid)
    # the families built around the optimiser's beliefs are taken whole, the expression families thinner
    progs, total = sample_programs(tier, name="c02", scale=0.7, quota={"F8": None, "F8g": None, "F8f": None, "F8h": None, "F8i": None, "F3f": None, "F2d": None, "F5h": None, "F5d": None, "F5e": None, "F5f": None, "F4b": None,
                                                                       "F1a": 200, "F1b": 100, "F1d": 100, "F2a": 150, "F1f": 120, "FP": 150})
    cases, bodies = [], {}
    for i, p in enumerate(progs):
        fn = sorted(render.calls_in(p["body"]))
        src = vocab.source(p["body"], fn)
        cid = "%s-%05d" % (p["fam"], i)
        cases.append(dict(id=cid, fam=p["fam"], body=p["body"], fnames=fn, locals=p.get("locals"), xio=True,
                          variants=[dict(name="O0", args=["-O0"], src=src), dict(name="O1", args=["-O1"], src=src),
                                    dict(name="O2", args=["-O2"], src=src), dict(name="O3", args=["-O3"], src=src)]))
        bodies[cid] = p["body"]
    pl = refine.Pipeline("c02", tier=tier)
    pl.run(cases, sem=False, pair=True, maxin=16 if tier == "quick" else 48, small_fams=SMALL_FAMS, defined_only=True)
    nbad = judge(pl, verdict, pid, finding_signatures(pid), bodies)
    st = pl.stats
    if (st["programs"] - st["rejected"] - st["crashed"] - st["linkerr"] < 10) and not verdict.violations:      # (a run that found violations reports them)
        raise common.ToolError("vacuous run: %s" % json.dumps(st))
    # ---- Layer 2: Peephole.tla (optimize() as coded): its belief tracking is model-checked (ValueSound, BeliefSound) on every
    # line sequence within the bound, and bound to the real optimize() by replaying the sequences (drift is reported, it is not a verdict)
    from . import peephole
    if tier == "quick":
        pres, pconfs, pdrift = peephole.run(tier, "c02", 4, 2, 211, 12000)
    else:
        pres, pconfs, pdrift = peephole.run(tier, "c02", 4, 3, 13, 150000)
    layer2 = dict(sequences_model_checked=pres.distinct, max_lines=4, invariants=["ModelTerminates", "ValueSound", "BeliefSound"],
                  sequences_replayed_into_optimize=len(pconfs), model_conformant=(len(pdrift) == 0), first_drift=(pdrift[0] if pdrift else None), drifts=len(pdrift))
    if pdrift:
        print("[vf] NOTE: optimize() no longer behaves like Peephole.tla on %d of %d replayed sequences (model drift), e.g. %s" % (len(pdrift), len(pconfs), json.dumps(pdrift[0])[:400]))
    cov = dict(programs=st["programs"], disagreements_checked=nbad, samples=pl.samples[:5], layer2_Peephole=layer2,
               states=st["states"] + pres.distinct, transitions=st["transitions"] + pres.generated, traces_validated_against_impl=st["behaviours"],
               accepted=st["programs"] - st["rejected"] - st["crashed"], rejected_by_compiler=st["rejected"],
               variants_identical_to_an_earlier_one_not_re_executed=st["identical_variants"], reference_runs_cut_at_bound=st["cut"],
               attributed_to_known_findings=verdict.known, exhaustive=(tier == "thorough"),
               explanation="Sequential product in Refine.tla: the -O0 code is run to completion, then the -O1/-O2/-O3 code from the same input; "
                           "final variables, X, Y, io log, faults and termination must be equal.")
    common.write_evidence(pid, tier, "translation_validation", cov, time.time() - t0, len(verdict.violations),
                          ["independent of CSem", "6502 model as for C01"])
    return verdict.finish()
