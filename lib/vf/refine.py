"""The refinement pipeline shared by C01, C02, C14, C15, C17, C18, C11, C10(fold=run):
   programs (ASTs) -> C text -> real compiler (harness) -> linked code -> TLC/Refine.tla (M6502)
                   \\-> TLC/SrcEval.tla (CSem) -> prescribed final states ---------^
"""
import json, os, random, itertools, time
from . import common, link, render, vocab
from .common import log

B8 = [0, 1, 2, 127, 128, 129, 254, 255]
B16 = [0, 1, 255, 256, 257, 0x7FFF, 0x8000, 0xFFFF, 0x1234]
SMALL = [0, 1, 2, 3, 5]
DEFAULTS = {"a": 0x11, "b": 0x22, "c": 0x33, "sa": 0x44, "sb": 0x55, "s": 0x1066, "t": 0x2077, "ss": 0x3088,
            "arr": [17, 3, 128, 255, 0, 200, 64, 9], "sarr": [0x0102, 0x80FF, 0x00FF, 0xFF00], "tab": [3, 60, 129, 250], "p": 0, "sca": [0, 240, 5, 128], "pca": [3, 200, 127, 128]}
ARR2 = {"arr": [0, 255, 1, 127, 129, 2, 254, 77], "sarr": [0xFFFF, 0, 0x7FFF, 0x8001], "sca": [255, 1, 127, 129], "pca": [255, 0, 129, 1]}
# a register the program never names must come out as it went in: it starts with a value no scratch use would leave behind
REG_SENTINEL = {"X": 0xC3, "Y": 0x5A}


def gen_programs(fams, name="gen", which="ALL"):
    """Run the generator spec (all families in one TLC run, cached by the hash of the spec);
    returns list of {fam, body} for the requested families.  which="RW": the rewrite pairs of C15."""
    import hashlib
    h = hashlib.sha1(open(os.path.join(common.SPEC, "GenProg.tla"), "rb").read()).hexdigest()[:16]
    cdir = os.path.join(common.WORK, "cache")
    os.makedirs(cdir, exist_ok=True)
    cpath = os.path.join(cdir, "genprog_%s_%s.json" % (which, h))
    if os.path.exists(cpath):
        progs = json.load(open(cpath))
    else:
        d = common.workdir("gen_" + name)
        cfg = os.path.join(d, "Gen_ALL.cfg")
        with open(cfg, "w") as f:
            f.write('CONSTANT Fam = "%s"\nINIT Init\nNEXT Next\nINVARIANT Emit\nCHECK_DEADLOCK FALSE\n' % which)
        res = common.run_tlc("GenProg", cfg=cfg, name="gen_%s" % name, tags={"CASE"}, workers=4, heap="6g")
        common.require_ok(res, "GenProg")
        progs = [o for (_, o) in res.lines]
        progs.sort(key=lambda o: json.dumps(o, sort_keys=True))
        tmp = cpath + ".%d" % os.getpid()
        json.dump(progs, open(tmp, "w"))
        os.replace(tmp, cpath)
        log("GenProg: %d programs enumerated by TLC (%.1fs)" % (len(progs), res.wall))
    return [p for p in progs if p["fam"] in fams]


def index_vars(body):
    """names of X/Y/scalars used as an array index somewhere -> max allowed value"""
    lim = {}

    def walk(x):
        if isinstance(x, dict):
            if x.get("k") == "idx":
                n = vocab.DECL[x["arr"]]["n"] if x["arr"] in vocab.DECL else 4
                if x["arr"] == "p":
                    n = 8           # p points at arr[8]
                for v in render.names_in(x["i"]):
                    lim[v] = min(lim.get(v, 255), n - 1)
            for v in x.values():
                walk(v)
        elif isinstance(x, list):
            for v in x:
                walk(v)
    walk(body)
    return lim


def make_inputs(case, vt, rnd, maxin, small=False):
    body = case.get("in_body") or case.get("body") or []
    reads = set(render.names_in(body))
    for f in vocab.closure(render.calls_in(body)):
        reads |= render.names_in(vocab.FUNCS[f]["body"])
    reads &= set(vt.keys())
    lim = index_vars(body)
    for f in vocab.closure(render.calls_in(body)):
        lim.update(index_vars(vocab.FUNCS[f]["body"]))
    doms = {}
    for n in sorted(reads):
        d = vt[n]
        if n in lim:
            doms[n] = sorted(set([0, 1, lim[n] // 2, lim[n]]))
        elif d["kind"] == "a":
            doms[n] = [None, "alt"]
        elif d["kind"] == "p":
            continue
        elif small:
            doms[n] = SMALL
        elif n in ("X", "Y"):
            doms[n] = [0, 1, 2, 255]
        elif d["w"] == 8:
            doms[n] = B8
        else:
            doms[n] = B16
    names = list(doms)
    total = 1
    for n in names:
        total *= len(doms[n])
    # Deterministic, prefix-stable order: the inputs used with a smaller cap are always a subset of those used with
    # a larger one, and do not depend on VERIF_SEED (the seed selects programs, not inputs).  This keeps the
    # known-findings baseline (established with the largest cap) valid for every tier and seed.
    import zlib
    prnd = random.Random(zlib.crc32(json.dumps(body, sort_keys=True).encode()))
    order, seen = [], set()

    def add(t):
        if t not in seen:
            seen.add(t)
            order.append(t)
    if names:
        for pick in (0, -1):
            add(tuple(doms[n][pick] for n in names))
        for i, n in enumerate(names):
            for v in doms[n]:
                add(tuple(v if j == i else prnd.choice(doms[m]) for j, m in enumerate(names)))
        tries = 0
        while len(order) < min(total, 128) and tries < 4000:
            add(tuple(prnd.choice(doms[n]) for n in names))
            tries += 1
    else:
        order = [()]
    combos = order[:maxin]
    inputs = []
    for t in combos:
        inp = {}
        for n, d in vt.items():
            if n in ("X", "Y"):
                inp[n] = 0 if n in reads else REG_SENTINEL[n]
            elif d["kind"] == "a":
                inp[n] = list(case.get("init", {}).get(n, DEFAULTS.get(n, [(i * 37 + 5) % 256 for i in range(d["n"])])))
            elif d["kind"] == "p":
                # pointers point at the start of the byte array unless the case says otherwise
                inp[n] = case.get("init", {}).get(n, vt["arr"]["addr"] if "arr" in vt and vt["arr"]["addr"] < 256 else 0)
            else:
                inp[n] = DEFAULTS.get(n, 0xA5 if d["w"] == 8 else 0xA55A)
        for n, v in zip(names, t):
            if vt[n]["kind"] == "a":
                if v == "alt" and n in ARR2 and not vt[n].get("rom"):
                    inp[n] = list(ARR2[n])
            else:
                inp[n] = v
        inputs.append(inp)
    return inputs


class Pipeline:
    def __init__(self, name, flavour="default", tier="quick"):
        self.name = name
        self.flavour = flavour
        self.tier = tier
        self.stats = dict(programs=0, rejected=0, reject_reasons={}, linkerr=0, crashed=0, inputs=0, src_ok=0, src_amb=0,
                          src_ub=0, src_div=0, identical_variants=0, behaviours=0, states=0, transitions=0, cut=0)
        self.samples = []
        self.mismatches = []
        self.crashes = []
        self.linkerrs = []
        self.mnemonic_modes = set()

    def run(self, cases, sem=True, pair=False, maxin=24, small_fams=(), fuel=48, timeout=1500, extra_decl=None, defined_only=False):
        """defined_only: in pair mode, still evaluate the source semantics and drop the inputs on which the source has no
        defined meaning (index out of bounds, ...) or does not terminate: two translations may differ there."""
        """cases: list of dict(id, fam, body(optional AST for CSem), variants=[dict(name, args, src, scheme?)], fnames, init?)"""
        rnd = random.Random(common.seed() * 7919 + 13)
        st = self.stats
        t0 = time.time()
        hc = [dict(id=c["id"], variants=[dict(name=v["name"], args=v["args"], src=v["src"], scheme=v.get("scheme", "4K")) for v in c["variants"]],
                   cfg=c.get("cfg", {})) for c in cases]
        obs = common.run_harness("compile", hc, self.name, flavour=self.flavour)
        log("%s: compiled %d programs in %.1fs" % (self.name, len(cases), time.time() - t0))
        tcases = []
        for c, ob in zip(cases, obs):
            st["programs"] += 1
            byv = {o.get("variant"): o for o in ob}
            bad = [o for o in ob if o.get("status") in ("panic", "timeout", "abort")]
            if bad:
                st["crashed"] += 1
                self.crashes.append(dict(id=c["id"], src=c["variants"][0]["src"], outcome=bad[0].get("status"), detail=bad[0].get("panic", "")))
                continue
            errs = [o for o in ob if o.get("status") != "ok"]
            if errs or len(ob) < len(c["variants"]):
                st["rejected"] += 1
                msg = errs[0].get("err", {}).get("msg", errs[0].get("status", "?")) if errs else "missing"
                st["reject_reasons"][msg] = st["reject_reasons"].get(msg, 0) + 1
                continue
            try:
                variants = []
                vt = None
                regions = None
                for v in c["variants"]:
                    o = byv[v["name"]]
                    addr, regs, rom, consts = link.layout(o["vars"], v.get("scheme", "4K"), io_names=c.get("io_names", ()))
                    code, entry, _ = link.link(o["funcs"], addr)
                    if vt is None:
                        vt = vocab.vt_for(addr, c.get("fnames", ()), extra=c.get("extra_decl"))
                        # cells the source semantics does not name (locals, parameters of functions outside the vocabulary):
                        # they need memory, are never observed; sizes come from the layout
                        for hv in o["vars"]:
                            n = hv["name"]
                            if n in vt or n not in addr or hv["def"] is not None or hv["mem"] == "Dummy":
                                continue
                            t = hv["type"]
                            if hv["size"] > 1:
                                vt[n] = dict(kind="a", w=8 if t == "CharPtr" else 16, sg=False, n=hv["size"], addr=addr[n], io=False, hidden=True)
                            else:
                                vt[n] = dict(kind="p" if t in ("CharPtr", "CharPtrPtr", "ShortPtr") else "s", w=16 if t == "Short" else 8, sg=False, n=1, addr=addr[n], io=False, hidden=True)
                        regions = list(regs)
                        # locals as the source semantics names them (unique ids): they live in CSem only; on the machine
                        # side the compiler's own cells (hidden above) hold them.  They get scratch addresses so that the
                        # memory function is total.
                        for li, lc in enumerate(c.get("locals") or []):
                            vt[lc["name"]] = dict(kind="s", w=lc["w"], sg=lc["sg"], n=1, addr=0x300 + 2 * li, io=False, hidden=True)
                        if c.get("locals"):
                            regions.append(dict(lo=0x300, hi=0x3FF, kind="ram", delta=0))
                        base_addr = addr
                    else:
                        # same variables at the same addresses in every variant, or results cannot be compared by address
                        for n in vt:
                            if n not in ("X", "Y") and addr.get(n) != base_addr.get(n):
                                raise link.LinkError("layout differs between variants for " + n)
                    variants.append(dict(name=v["name"], code=code, entry=entry))
                    for ins in code:
                        self.mnemonic_modes.add((ins["op"], ins["syn"]))
            except link.LinkError as e:
                st["linkerr"] += 1
                self.linkerrs.append(dict(id=c["id"], src=c["variants"][0]["src"], error=str(e)))
                continue
            # drop variants whose code is identical to an earlier one (counted, not executed twice)
            uniq = [variants[0]]
            for v in variants[1:]:
                if any(v["code"] == u["code"] for u in uniq) and pair and not sem:
                    st["identical_variants"] += 1
                else:
                    uniq.append(v)
            if pair and not sem and len(uniq) < 2:
                continue
            for n, d in vt.items():
                if vocab.DECL.get(n, {}).get("rom"):
                    d["rom"] = True
            inputs = make_inputs(c, vt, rnd, maxin, small=c["fam"] in small_fams or c.get("small", False))
            obsn = c.get("obs") or [n for n in vt if n not in ("X", "Y") and (n in vocab.DECL or n in c.get("obs_extra", ())) and not vt[n].get("rom") and not vt[n].get("hidden")]
            maxlen = max(len(v["code"]) for v in uniq)
            tcases.append(dict(id=c["id"], vt=vt, fs=vocab.fs_for(c.get("fnames", ())), body=c.get("body") or [], fuel=fuel, obs=obsn,
                               regions=regions, variants=uniq, tmp=link.TMP_ADDR, prefix=bool(c.get("prefix", False)), cycdiff=int(c.get("cycdiff", -1)), xio=bool(c.get("xio", False)), sem=bool(sem and c.get("body") is not None),
                               pair=bool(pair and len(uniq) > 1), inputs=[dict(inp=i) for i in inputs], _maxlen=maxlen, _src=c["variants"][0]["src"], _fam=c["fam"]))
            if len(self.samples) < 6 and (st["programs"] % 97 == 1):
                self.samples.append(dict(id=c["id"], fam=c["fam"], src=c["variants"][0]["src"], input=inputs[0],
                                         code=[" ".join(str(x[k]) for k in ("op", "syn", "a")) for x in uniq[0]["code"]][:40]))
        # ---- source side
        d = common.workdir("ref_" + self.name)
        semcases = [t for t in tcases if t["sem"] or (defined_only and t["body"])]
        if semcases:
            exp = {}

            def on_src(tag, o):
                exp[(o["id"], o["k"])] = o
            for ci, chunk in enumerate(_chunks(semcases, 60000)):
                f1 = os.path.join(d, "src_cases_%d.ndjson" % ci)
                with open(f1, "w") as f:
                    for t in chunk:
                        f.write(json.dumps(dict(id=t["id"], vt=t["vt"], fs=t["fs"], body=t["body"], fuel=t["fuel"], obs=t["obs"],
                                                inputs=[i["inp"] for i in t["inputs"]])) + "\n")
                res = common.run_tlc("SrcEval", env={"CASES": f1}, name="src_" + self.name, tags={"SRC"}, on_line=on_src, timeout=timeout)
                common.require_ok(res, "SrcEval")
                os.remove(f1)
            log("%s: SrcEval %d (case,input) pairs" % (self.name, len(exp)))
            for t in semcases:
                keep = []
                for k, i in enumerate(t["inputs"], start=1):
                    o = exp.get((t["id"], k))
                    if o is None:
                        raise common.ToolError("SrcEval gave no outcome for %s/%d" % (t["id"], k))
                    st["inputs"] += 1
                    st["src_" + o["st"]] += 1
                    if o["st"] == "ok":
                        i["ex"] = o["ex"]
                        i["bound"] = 300 + 3 * t["_maxlen"] * (o["it"] + 1)
                        keep.append(i)
                    elif o["st"] == "amb" and not t["sem"]:
                        i["ex"] = {}
                        i["bound"] = t.get("bound", 2500)
                        keep.append(i)
                t["inputs"] = keep
        for t in tcases:
            if not t["sem"] and not (defined_only and t["body"]):
                for i in t["inputs"]:
                    i["ex"] = {}
                    i["bound"] = t.get("bound", 2500)
                    st["inputs"] += 1
        tcases = [t for t in tcases if t["inputs"]]
        self.tcases = {t["id"]: t for t in tcases}
        if not tcases:
            return
        def on_mm(tag, o):
            if tag == "MM":
                self.mismatches.append(o)
            elif tag == "CUT":
                st["cut"] += 1
        wall = 0.0
        for ci, chunk in enumerate(_chunks(tcases, 50000)):
            f2 = os.path.join(d, "cases_%d.ndjson" % ci)
            with open(f2, "w") as f:
                for t in chunk:
                    f.write(json.dumps({k: v for k, v in t.items() if not k.startswith("_")}) + "\n")
            res = common.run_tlc("Refine", env={"CASES": f2}, name="ref_" + self.name, tags={"MM", "CUT"}, on_line=on_mm, timeout=timeout)
            common.require_ok(res, "Refine")
            os.remove(f2)
            st["states"] += res.distinct
            st["transitions"] += res.generated
            wall += res.wall
        st["behaviours"] += sum(len(t["inputs"]) * 2 * ((len(t["variants"]) if t["sem"] else 0) + (len(t["variants"]) - 1 if t["pair"] else 0)) for t in tcases)
        log("%s: Refine %d behaviours, %d states, %d mismatching behaviours, %.1fs" % (self.name, st["behaviours"], st["states"], len(self.mismatches), wall))


def _chunks(tcases, max_pairs):
    """split into groups whose total number of (case, input, variant) triples stays below max_pairs (TLC heap)"""
    cur, n = [], 0
    for t in tcases:
        w = len(t["inputs"]) * max(1, len(t.get("variants", [1])))
        if cur and n + w > max_pairs:
            yield cur
            cur, n = [], 0
        cur.append(t)
        n += w
    if cur:
        yield cur

def run_tcases(name, tcases, timeout=1500):
    """Run Refine.tla on ready-made cases (used by checks that do not go through compile()).
    Returns (mismatches, cut_count, TlcResult)."""
    d = common.workdir("ref_" + name)
    f2 = os.path.join(d, "cases.ndjson")
    with open(f2, "w") as f:
        for t in tcases:
            f.write(json.dumps({k: v for k, v in t.items() if not k.startswith("_")}) + "\n")
    mms, cut = [], [0]

    def on_mm(tag, o):
        if tag == "MM":
            mms.append(o)
        else:
            cut[0] += 1
    res = common.run_tlc("Refine", env={"CASES": f2}, name="ref_" + name, tags={"MM", "CUT"}, on_line=on_mm, timeout=timeout)
    common.require_ok(res, "Refine")
    return mms, cut[0], res
