"""Binding of spec/Peephole.tla (Layer 2: AssemblyCode::optimize as coded) to the real optimize(): the sequences TLC
enumerates are replayed through the harness (asmapi) and the resulting line sequences compared with the model's."""
import json, os, random
from . import common


def op_text(o):
    m, b = o["m"], o["b"]
    return {"none": "", "imm": "#" + b, "abs": b, "x": b + ",X", "y": b + ",Y", "indy": "(%s),Y" % b}[m]


def to_lines(code):
    out = []
    for l in code:
        k = l["k"]
        if k == "i":
            out.append(dict(k="i", mn=l["mn"], op=op_text(l["op"]), nb=2, cy=2, prot=l["prot"]))
        elif k == "l":
            out.append(dict(k="l", name=l["name"]))
        elif k == "d":
            out.append(dict(k="d"))
        elif k == "a":
            out.append(dict(k="a", text="NOP", nb=1))
        else:
            out.append(dict(k="c", text="other"))
    return out


def shape(lines):
    return [(l["k"], l.get("mn", ""), l.get("op", l.get("name", "")) or "", bool(l.get("prot", False))) for l in lines if l["k"] != "a"] + [("asm", sum(1 for l in lines if l["k"] == "a"))]


def run(tier, name, maxlen, full_len, emit_mod, cap):
    """-> (tlc result, cases replayed, list of drifts)"""
    d = common.workdir("ph_" + name)
    cfg = os.path.join(d, "MCPeephole.cfg")
    open(cfg, "w").write("SPECIFICATION Spec\nCONSTANTS MaxLen = %d\n EmitFullLen = %d\n EmitMod = %d\nINVARIANT ModelTerminates\nINVARIANT ValueSound\nINVARIANT BeliefSound\n"
                         "INVARIANT EmitConf\nCHECK_DEADLOCK FALSE\n" % (maxlen, full_len, emit_mod))
    res = common.run_tlc("MCPeephole", cfg=cfg, name="ph_" + name, tags={"CONF"}, workers=8, heap="10g", timeout=3000)
    if res.violated_invariant:
        raise common.ToolError("design-level check failed: Peephole.tla violates %s (the model of optimize() is wrong, or its belief tracking is): %s"
                               % (res.violated_invariant, res.raw_tail[-1500:]))
    common.require_ok(res, "MCPeephole")
    confs = [o for (_, o) in res.lines]
    confs.sort(key=lambda o: json.dumps(o, sort_keys=True))
    if len(confs) > cap:
        confs = random.Random(common.seed()).sample(confs, cap)
    obs = common.run_harness("asmapi", [dict(id="ph%d" % i, lines=to_lines(c["code"]), ops=["optimize"]) for i, c in enumerate(confs)], "ph_" + name)
    drift = []
    for c, ob in zip(confs, obs):
        o = ob[0] if ob else {"status": "missing"}
        if o.get("status") != "ok" or shape(o["lines"]) != shape(to_lines(c["opt"])) or o.get("removed") != c["removed"]:
            drift.append(dict(code=shape(to_lines(c["code"])), model=shape(to_lines(c["opt"])), model_removed=c["removed"],
                              real=shape(o.get("lines", [])) if o.get("status") == "ok" else o.get("status"), real_removed=o.get("removed")))
    return res, confs, drift
