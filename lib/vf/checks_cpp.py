"""Preprocessor checks: C07 (conditional compilation), and helpers shared by C06/C08/C09/C11."""
import json, os, random, re, time
from . import common
from .common import log


def gen_cond(tier, name="c07"):
    d = common.workdir("gen_" + name)
    runs = []
    if tier == "quick":
        runs.append(("min", dict(MaxLen=6, MaxDepth=2, If="MinIf", Elif="MinElif", Def="MinDef", Extras="ErrInc"), None))
        runs.append(("rich", dict(MaxLen=8, MaxDepth=3, If="RichIf", Elif="RichIf", Def="RichDef", Extras="ErrInc"), "num=3000"))
    else:
        runs.append(("min", dict(MaxLen=7, MaxDepth=3, If="MinIf", Elif="MinElif", Def="MinDef", Extras="ErrInc"), None))
        runs.append(("rich", dict(MaxLen=10, MaxDepth=3, If="RichIf", Elif="RichIf", Def="RichDef", Extras="ErrInc"), "num=60000"))
    cases, stats = [], {}
    for rn, k, sim in runs:
        cfg = os.path.join(d, "GenCond_%s.cfg" % rn)
        open(cfg, "w").write("SPECIFICATION Spec\nCONSTANTS MaxLen = %d\n MaxDepth = %d\n IfConds <- %s\n ElifConds <- %s\n DefNames <- %s\n Extras <- %s\n"
                             "INVARIANT ImplIsRef\nINVARIANT Emit\nCHECK_DEADLOCK FALSE\n" % (k["MaxLen"], k["MaxDepth"], k["If"], k["Elif"], k["Def"], k["Extras"]))
        seen = set()
        got = []

        def on(tag, o):
            key = json.dumps(o["seq"])
            if key not in seen:
                seen.add(key)
                got.append(o)
        extra = None
        if sim:
            extra = ["-depth", str(k["MaxLen"] + 1), "-seed", str(common.seed())]
        res = common.run_tlc("MCGenCond", cfg=cfg, name="gen_%s_%s" % (name, rn), tags={"CASE"}, on_line=on, workers=8, heap="8g",
                             simulate=sim, extra=extra, timeout=1500)
        if res.violated_invariant:
            raise common.ToolError("design-level check failed: %s (CppImpl is not CppRef) - see %s" % (res.violated_invariant, res.raw_tail[-1500:]))
        if not sim:
            common.require_ok(res, "GenCond " + rn)
        stats[rn] = dict(states=res.distinct, generated=res.generated, cases=len(got), exhaustive=not sim, constants=k)
        got.sort(key=lambda o: json.dumps(o["seq"]))
        for o in got:
            o["run"] = rn
        cases += got
        log("GenCond[%s]: %d cases, %d states, %.1fs" % (rn, len(got), res.distinct, res.wall))
    return cases, stats


def render_cond(c):
    """-> (source text, line number of each item (1-based list aligned with seq))"""
    out = ["#define C 1"]
    lines = []
    for i, it in enumerate(c["seq"], 1):
        k = it["k"]
        if k == "text":
            out.append("char m%d;" % i)
        elif k == "define":
            out += ["#undef Z", "#define Z 1"]
        elif k == "undef":
            out.append("#undef Z")
        elif k == "error":
            out.append("#error E%d" % i)
        elif k == "include":
            out.append('#include "inc%d.h"' % i)
        elif k == "if":
            out.append("#if " + it["c"])
        elif k in ("ifdef", "ifndef"):
            out.append("#%s %s" % (k, it["c"]))
        elif k == "elif":
            out.append("#elif " + it["c"])
        elif k == "else":
            out.append("#else")
        elif k == "endif":
            out.append("#endif")
        lines.append(len(out))
    out += ["#ifdef Z", "char zdef;", "#endif", "char tail;"]
    return "\n".join(out) + "\n", lines


def make_incdir(name, n=12):
    d = os.path.join(common.workdir("inc_" + name), "inc")
    os.makedirs(d, exist_ok=True)
    for i in range(1, n + 1):
        open(os.path.join(d, "inc%d.h" % i), "w").write("char inc%d;\n" % i)
    return d


def c07(tier):
    t0 = time.time()
    pid = "C07"
    verdict = common.Verdict(pid)
    cases, gstats = gen_cond(tier)
    incdir = make_incdir("c07")
    hc = []
    ntrace = 4000 if tier == "quick" else 30000
    rnd = random.Random(common.seed())
    tr = set(rnd.sample(range(len(cases)), min(ntrace, len(cases))))
    for i, c in enumerate(cases):
        src, lines = render_cond(c)
        c["_src"], c["_lines"] = src, lines
        hc.append(dict(id=i, src=src, file="main.c", defines=["A=1", "B=0"], query=["Z", "A", "C", "U"], incdir=incdir, trace=(i in tr)))
    obs = common.run_harness("cpp", hc, "c07")
    nbad = 0
    events = []
    kept_some = dropped_some = 0
    for i, (c, ob) in enumerate(zip(cases, obs)):
        o = ob[0] if ob else {"status": "missing"}
        exp_m = {"m%d" % j for j, (it, k) in enumerate(zip(c["seq"], c["kept"]), 1) if k and it["k"] == "text"}
        exp_i = {"inc%d" % j for j, (it, k) in enumerate(zip(c["seq"], c["kept"]), 1) if k and it["k"] == "include"}
        problem = None
        if c["err"]:
            want = dict(kind="compiler", file="main.c", line=c["_lines"][c["err"] - 1], msg="E%d" % c["err"])
            if o.get("status") != "err":
                problem = "expected #error at item %d, got %s" % (c["err"], o.get("status"))
            else:
                e = o["err"]
                if (e.get("kind"), e.get("file"), e.get("line"), e.get("msg")) != (want["kind"], want["file"], want["line"], want["msg"]):
                    problem = "wrong #error outcome: %s, expected %s" % (json.dumps(e), json.dumps(want))
        else:
            if o.get("status") != "ok":
                problem = "expected success, got %s %s" % (o.get("status"), json.dumps(o.get("err", o.get("panic", ""))))
            else:
                toks = set(re.findall(r"\b(m\d+|inc\d+|zdef|tail)\b", o["text"]))
                got_m = {t for t in toks if re.fullmatch(r"m\d+", t)}
                got_i = {t for t in toks if t.startswith("inc")}
                if got_m != exp_m or got_i != exp_i:
                    problem = "kept text differs: got %s, expected %s" % (sorted(got_m | got_i), sorted(exp_m | exp_i))
                elif ("zdef" in toks) != c["z"] or (o["macros"].get("Z") is not None) != c["z"]:
                    problem = "macro Z %s at the end, expected %s" % ("defined" if o["macros"].get("Z") is not None else "undefined", "defined" if c["z"] else "undefined")
                elif "tail" not in toks:
                    problem = "text after the last #endif is lost"
                if exp_m or exp_i:
                    kept_some += 1
                if any(it["k"] in ("text", "include") and not k for it, k in zip(c["seq"], c["kept"])):
                    dropped_some += 1
        if problem:
            nbad += 1
            verdict.violation(problem[:200], dict(property=pid, items=c["seq"], source=c["_src"], defines=["A=1", "B=0"], expected=dict(kept=c["kept"], z=c["z"], err=c["err"]),
                                                  observed={k: o.get(k) for k in ("status", "err", "text", "macros")}, problem=problem))
        if i in tr and "events" in o:
            events.append(dict(kind="begin", before="", after="", depth=0, emitted=0, case=i, line=0))
            for e in o["events"]:
                if e["file"] == "main.c":
                    events.append(dict(kind=e["kind"], before=e["before"], after=e["after"], depth=e["depth"], emitted=e["emitted"], case=i, line=e["line"]))
    if kept_some < 50 or dropped_some < 50:
        raise common.ToolError("vacuous: kept_some=%d dropped_some=%d" % (kept_some, dropped_some))
    # ---- trace validation of the hook events against CppImpl (Layer 2): drift, not a verdict on the property
    d = common.workdir("trace_c07")
    tp = os.path.join(d, "trace.ndjson")
    with open(tp, "w") as f:
        for e in events:
            f.write(json.dumps(e) + "\n")
    conform = None
    first_unmatched = None
    if events:
        res = common.run_tlc("CppTrace", env={"TRACE": tp}, name="trace_c07", workers=1, depth_first=True, tags={"REJECTED"}, heap="4g")
        rej = [o for (t, o) in res.lines]
        conform = res.ok and not rej
        if rej:
            first_unmatched = rej[0]
        tstates = res.distinct
    else:
        tstates = 0
    cov = dict(states=sum(s["states"] for s in gstats.values()) + tstates, transitions=sum(s["generated"] for s in gstats.values()),
               traces_validated_against_impl=len(cases), samples=[dict(items=c["seq"], expected=dict(kept=c["kept"], z=c["z"], err=c["err"]), source=c["_src"]) for c in cases[:2] + cases[-1:]],
               generator_runs=gstats, cases_replayed=len(cases), cases_with_kept_text=kept_some, cases_with_dropped_text=dropped_some,
               disagreements=nbad, hook_events_validated=len(events), layer2_model_conformant=conform, first_unmatched_event=first_unmatched,
               design_level="invariant ImplIsRef (CppImpl keeps exactly what CppRef selects) held on every generated sequence",
               exhaustive=True, explanation="GenCond.tla enumerates well-nested directive sequences with their outcome under the reference semantics CppRef; "
               "each is rendered and run through the real preprocessor (hook H2 verif::preprocess); kept markers, final macro table and #error outcome must match. "
               "A sample of the runs is also validated event by event against the implementation-shaped model CppImpl (CppTrace.tla).")
    common.write_evidence(pid, tier, "model_checking", cov, time.time() - t0, len(verdict.violations),
                          ["conditions over literals 0/1, macros, ! and == as the property states", "include files hold one declaration"])
    if conform is False:
        log("NOTE: hook trace is not a behaviour of CppImpl (model drift): %s" % json.dumps(first_unmatched))
    return verdict.finish()


REGISTRY = {"C07": c07}
