"""Preprocessor checks: C07 (conditional compilation), and helpers shared by C06/C08/C09/C11."""
import json, os, random, re, time
from . import common
from .common import log


def gen_cond(tier, name="c07"):
    d = common.workdir("gen_" + name)
    runs = []
    if tier == "quick":
        runs.append(("min", dict(MaxLen=6, MaxDepth=2, If="MinIf", Elif="MinElif", Def="MinDef", Extras="ErrInc"), None))
        runs.append(("rich", dict(MaxLen=8, MaxDepth=3, If="RichIf", Elif="RichIf", Def="RichDef", Extras="ErrInc"), "num=3000"))
    else:
        runs.append(("min", dict(MaxLen=7, MaxDepth=3, If="MinIf", Elif="MinElif", Def="MinDef", Extras="ErrInc"), None))
        runs.append(("rich", dict(MaxLen=10, MaxDepth=3, If="RichIf", Elif="RichIf", Def="RichDef", Extras="ErrInc"), "num=60000"))
    cases, stats = [], {}
    for rn, k, sim in runs:
        cfg = os.path.join(d, "GenCond_%s.cfg" % rn)
        open(cfg, "w").write("SPECIFICATION Spec\nCONSTANTS MaxLen = %d\n MaxDepth = %d\n IfConds <- %s\n ElifConds <- %s\n DefNames <- %s\n Extras <- %s\n"
                             "INVARIANT ImplIsRef\nINVARIANT Emit\nCHECK_DEADLOCK FALSE\n" % (k["MaxLen"], k["MaxDepth"], k["If"], k["Elif"], k["Def"], k["Extras"]))
        seen = set()
        got = []

        def on(tag, o):
            key = json.dumps(o["seq"])
            if key not in seen:
                seen.add(key)
                got.append(o)
        extra = None
        if sim:
            extra = ["-depth", str(k["MaxLen"] + 1), "-seed", str(common.seed())]
        res = common.run_tlc("MCGenCond", cfg=cfg, name="gen_%s_%s" % (name, rn), tags={"CASE"}, on_line=on, workers=8, heap="8g",
                             simulate=sim, extra=extra, timeout=1500)
        if res.violated_invariant:
            raise common.ToolError("design-level check failed: %s (CppImpl is not CppRef) - see %s" % (res.violated_invariant, res.raw_tail[-1500:]))
        if not sim:
            common.require_ok(res, "GenCond " + rn)
        stats[rn] = dict(states=res.distinct, generated=res.generated, cases=len(got), exhaustive=not sim, constants=k)
        got.sort(key=lambda o: json.dumps(o["seq"]))
        for o in got:
            o["run"] = rn
        cases += got
        log("GenCond[%s]: %d cases, %d states, %.1fs" % (rn, len(got), res.distinct, res.wall))
    return cases, stats


def render_cond(c):
    """-> (source text, line number of each item (1-based list aligned with seq))"""
    out = ["#define C 1"]
    lines = []
    for i, it in enumerate(c["seq"], 1):
        k = it["k"]
        if k == "text":
            out.append("char m%d;" % i)
        elif k == "define":
            out += ["#undef Z", "#define Z 1"]
        elif k == "undef":
            out.append("#undef Z")
        elif k == "error":
            out.append("#error E%d" % i)
        elif k == "include":
            out.append('#include "inc%d.h"' % i)
        elif k == "cmtdir":
            out += ["/* a comment whose lines look like directives", "#else", "#define Z 1", "#endif", "#error not an error", "   end of the comment */"]
        elif k == "if":
            out.append("#if " + it["c"])
        elif k in ("ifdef", "ifndef"):
            out.append("#%s %s" % (k, it["c"]))
        elif k == "elif":
            out.append("#elif " + it["c"])
        elif k == "else":
            out.append("#else")
        elif k == "endif":
            out.append("#endif")
        lines.append(len(out))
    out += ["#ifdef Z", "char zdef;", "#endif", "char tail;"]
    return "\n".join(out) + "\n", lines


def make_incdir(name, n=12):
    d = os.path.join(common.workdir("inc_" + name), "inc")
    os.makedirs(d, exist_ok=True)
    for i in range(1, n + 1):
        open(os.path.join(d, "inc%d.h" % i), "w").write("char inc%d;\n" % i)
    return d


def c07(tier):
    t0 = time.time()
    pid = "C07"
    verdict = common.Verdict(pid)
    cases, gstats = gen_cond(tier)
    incdir = make_incdir("c07")
    hc = []
    ntrace = 4000 if tier == "quick" else 30000
    rnd = random.Random(common.seed())
    tr = set(rnd.sample(range(len(cases)), min(ntrace, len(cases))))
    for i, c in enumerate(cases):
        src, lines = render_cond(c)
        c["_src"], c["_lines"] = src, lines
        hc.append(dict(id=i, src=src, file="main.c", defines=["A=1", "B=0"], query=["Z", "A", "C", "U"], incdir=incdir, trace=(i in tr)))
    obs = common.run_harness("cpp", hc, "c07")
    nbad = 0
    events = []
    kept_some = dropped_some = 0
    for i, (c, ob) in enumerate(zip(cases, obs)):
        o = ob[0] if ob else {"status": "missing"}
        exp_m = {"m%d" % j for j, (it, k) in enumerate(zip(c["seq"], c["kept"]), 1) if k and it["k"] == "text"}
        exp_i = {"inc%d" % j for j, (it, k) in enumerate(zip(c["seq"], c["kept"]), 1) if k and it["k"] == "include"}
        problem = None
        if c["err"]:
            want = dict(kind="compiler", file="main.c", line=c["_lines"][c["err"] - 1], msg="E%d" % c["err"])
            if o.get("status") != "err":
                problem = "expected #error at item %d, got %s" % (c["err"], o.get("status"))
            else:
                e = o["err"]
                if (e.get("kind"), e.get("file"), e.get("line"), e.get("msg")) != (want["kind"], want["file"], want["line"], want["msg"]):
                    problem = "wrong #error outcome: %s, expected %s" % (json.dumps(e), json.dumps(want))
        else:
            if o.get("status") != "ok":
                problem = "expected success, got %s %s" % (o.get("status"), json.dumps(o.get("err", o.get("panic", ""))))
            else:
                toks = set(re.findall(r"\b(m\d+|inc\d+|zdef|tail)\b", o["text"]))
                got_m = {t for t in toks if re.fullmatch(r"m\d+", t)}
                got_i = {t for t in toks if t.startswith("inc")}
                if got_m != exp_m or got_i != exp_i:
                    problem = "kept text differs: got %s, expected %s" % (sorted(got_m | got_i), sorted(exp_m | exp_i))
                elif ("zdef" in toks) != c["z"] or (o["macros"].get("Z") is not None) != c["z"]:
                    problem = "macro Z %s at the end, expected %s" % ("defined" if o["macros"].get("Z") is not None else "undefined", "defined" if c["z"] else "undefined")
                elif "tail" not in toks:
                    problem = "text after the last #endif is lost"
                if exp_m or exp_i:
                    kept_some += 1
                if any(it["k"] in ("text", "include") and not k for it, k in zip(c["seq"], c["kept"])):
                    dropped_some += 1
        if problem:
            nbad += 1
            verdict.violation(problem[:200], dict(property=pid, items=c["seq"], source=c["_src"], defines=["A=1", "B=0"], expected=dict(kept=c["kept"], z=c["z"], err=c["err"]),
                                                  observed={k: o.get(k) for k in ("status", "err", "text", "macros")}, problem=problem))
        if i in tr and "events" in o:
            events.append(dict(kind="begin", before="", after="", depth=0, emitted=0, case=i, line=0, first=0))
            for e in o["events"]:
                if e["file"] == "main.c":
                    events.append(dict(kind=e["kind"], before=e["before"], after=e["after"], depth=e["depth"], emitted=e["emitted"], case=i, line=e["line"], first=e["first"]))
    if (kept_some < 50 or dropped_some < 50) and not verdict.violations:      # (a run that found violations reports them)
        raise common.ToolError("vacuous: kept_some=%d dropped_some=%d" % (kept_some, dropped_some))
    # ---- trace validation of the hook events against CppImpl (Layer 2): drift, not a verdict on the property
    d = common.workdir("trace_c07")
    tp = os.path.join(d, "trace.ndjson")
    with open(tp, "w") as f:
        for e in events:
            f.write(json.dumps(e) + "\n")
    conform = None
    first_unmatched = None
    if events:
        res = common.run_tlc("CppTrace", env={"TRACE": tp}, name="trace_c07", workers=1, depth_first=True, tags={"REJECTED"}, heap="4g")
        rej = [o for (t, o) in res.lines]
        conform = res.ok and not rej
        if rej:
            first_unmatched = rej[0]
        tstates = res.distinct
    else:
        tstates = 0
    cov = dict(states=sum(s["states"] for s in gstats.values()) + tstates, transitions=sum(s["generated"] for s in gstats.values()),
               traces_validated_against_impl=len(cases), samples=[dict(items=c["seq"], expected=dict(kept=c["kept"], z=c["z"], err=c["err"]), source=c["_src"]) for c in cases[:2] + cases[-1:]],
               generator_runs=gstats, cases_replayed=len(cases), cases_with_kept_text=kept_some, cases_with_dropped_text=dropped_some,
               disagreements=nbad, hook_events_validated=len(events), layer2_model_conformant=conform, first_unmatched_event=first_unmatched,
               design_level="invariant ImplIsRef (CppImpl keeps exactly what CppRef selects) held on every generated sequence",
               exhaustive=True, explanation="GenCond.tla enumerates well-nested directive sequences with their outcome under the reference semantics CppRef; "
               "each is rendered and run through the real preprocessor (hook H2 verif::preprocess); kept markers, final macro table and #error outcome must match. "
               "A sample of the runs is also validated event by event against the implementation-shaped model CppImpl (CppTrace.tla).")
    common.write_evidence(pid, tier, "model_checking", cov, time.time() - t0, len(verdict.violations),
                          ["conditions over literals 0/1, macros, ! and == as the property states", "include files hold one declaration"])
    if conform is False:
        log("NOTE: hook trace is not a behaviour of CppImpl (model drift): %s" % json.dumps(first_unmatched))
    return verdict.finish()


REGISTRY = {"C07": c07}


# ---------------------------------------------------------------------------------------------
# C06: diagnostics name the true source location
# ---------------------------------------------------------------------------------------------
HFILES = {"h3.h": "char h3a;\nchar h3b;\nchar h3c;\n", "h2x.h": "char h2a;\nchar h2b;", "a.inc": "; assembler \u00e9\u00e8 \u20ac (text outside ASCII)\n\tNOP\n",
          "hg.h": "#ifndef HG_H\n#define HG_H\nchar hga;\n#endif", "hc.h": "char hca;\n// no newline after this comment",
          "hn.h": "char hna;\n#include \"hn2.h\"", "hn2.h": "char hnb;", "hm.h": "char hma;\n#include \"hm2.h\"\n", "hm2.h": "char hmb;"}


def render_prefix_item(it, i):
    k = it["k"]
    u = "_%d" % i
    if k == "blank":
        return [""]
    if k == "slc":
        return ['// a comment with a "quote and a /* marker']
    if k == "blk1":
        return ["/* one line comment */"]
    if k == "blk2":
        return ["/* two", "   lines */"]
    if k == "blk3":
        return ["/* three", " * lines // with a marker", " */"]
    if k == "cmtwrap":
        return ["char cu%s; /* opens after code" % u, "closes before code */ char cv%s;" % u]
    if k == "splice2":
        return ["char \\", "sp%s;" % u]
    if k == "splice3":
        return ["char \\", "sq%s \\" % u, ";"]
    if k == "def":
        return ["#define D%s 7" % u]
    if k == "defspl":
        return ["#define E%s(x) \\" % u, "  ((x) + 1)"]
    if k == "skip2":
        return ["#if 0", "this is not C at all", "char never%s;" % u, "#endif"]
    if k == "take1":
        return ["#if 1", "char tk%s;" % u, "#endif"]
    if k == "ifdefU":
        return ["#ifdef UNDEFINED_NAME", "char nv%s;" % u, "#endif"]
    if k == "use":
        return ["const char us%s = M;" % u]
    if k == "inc3n":
        return ['#include "h3.h"']
    if k == "inc2x":
        return ['#include "h2x.h"']
    if k == "incasm":
        return ['#include "a.inc"']
    if k == "inc_guard":
        return ['#include "hg.h"']
    if k == "inc_cmt":
        return ['#include "hc.h"']
    if k == "inc_nest":
        return ['#include "hn.h"']
    if k == "inc_nestn":
        return ['#include "hm.h"']
    raise ValueError(k)


def render_error_item(e):
    k = e["k"]
    return {
        "hash_error": ["#error boom"],
        "unknown_dir": ["#foo bar"],
        "unterminated": ['const char *us = "abc;'],
        "endif": ["#endif"],
        "noinclude": ['#include "nofile.h"'],
        "pest": ["char 9bad;"],
        "pest_spliced": ["char okk; \\", "char 9bad;"],
        "unknown_id": ["void fe() {", "  zz = 1;", "}"],
        "dupvar": ["char dupv;", "char dupv;"],
        "break_outside": ["void fe() {", "  break;", "}"],
        "continue_outside": ["void fe() {", "  continue;", "}"],
        "wrong_return": ["void fe() {", "  return 3;", "}"],
        "unknown_func": ["void fe() {", "  nofn();", "}"],
        "too_many_args": ["void g0() { }", "void fe() {", "  g0(1);", "}"],
        "subscript_scalar": ["char scv;", "void fe() {", "  scv[1] = 2;", "}"],
        "bad_init": ["char bi = 3;"],
        "unknown_id0": ["void fe() {", "zz = 1;", "}"],
        "unknown_func0": ["void fe() {", "nofn();", "}"],
        "break_outside0": ["void fe() {", "break;", "}"],
        "subscript_scalar0": ["char scv;", "void fe() {", "scv[1] = 2;", "}"],
        "too_many_args0": ["void g0() { }", "void fe() {", "g0(1);", "}"],
        "wrong_return0": ["void fe() {", "return 3;", "}"],
        "pest0": ["char okq;", "9bad;"],
        "if_undef": ["#if NOT_DEFINED_ANYWHERE"],
        "elif_undef": ["#if 0", "#elif NOT_DEFINED_ANYWHERE", "#endif"],
        "if_trailing": ["#if 1 1"],
        "cond_partial": ["void fv() { }", "void fe() {", "  if (fv()) X = 1;", "}"],
        "cond_partial0": ["void fv() { }", "void fe() {", "if (fv()) X = 1;", "}"],
        "arith_partial": ["void fv() { }", "void fe() {", "  X = fv() + 1;", "}"],
        "arith_partial0": ["void fv() { }", "void fe() {", "X = fv() + 1;", "}"],
        "complex_type": ["short *ctp;"],
        "complex_local": ["void fe() {", "  short *clp;", "}"],
        "continue_in_switch": ["void fe() {", "  switch (X) { case 1:", "    continue;", "  }", "}"],
        "continue_in_switch0": ["void fe() {", "  switch (X) { case 1:", "continue;", "  }", "}"],
        "complex_param": ["void fe(char okp,", "        short *cpp) {", "}"],
    }[k]


def render_loc(c):
    main = ["#define M 1"]
    seen_inc = set()
    for i, it in enumerate(c["prefix"], 1):
        ls = render_prefix_item(it, i)
        if it["k"] in ("inc3n", "inc2x", "inc_cmt", "inc_nest", "inc_nestn"):
            # a C header may be included once only (its declarations would clash): later ones become blank lines
            if it["k"] in seen_inc:
                ls = [""]
            seen_inc.add(it["k"])
        assert len(ls) == it["n"], (it, ls)
        main += ls
    el = render_error_item(c["err"])
    assert len(el) == c["err"]["n"]
    files = dict(HFILES)
    if c["where"] == "top":
        assert not c["prefix"]
        main = list(el)
    elif c["where"] == "main":
        main += el
    else:
        main.append('#include "errh.h"')
        files["errh.h"] = "char eh1;\nchar eh2;\n" + "\n".join(el) + "\n"
    main += ["char tail_decl;", "void main() { }"]
    nl = "\r\n" if c["crlf"] else "\n"
    return nl.join(main) + nl, files


def c06(tier):
    t0 = time.time()
    pid = "C06"
    verdict = common.Verdict(pid)
    d = common.workdir("gen_c06")
    cfg = os.path.join(d, "GenLoc.cfg")
    maxp, full, mod = (3, 2, 16) if tier == "quick" else (3, 2, 3)
    open(cfg, "w").write("SPECIFICATION Spec\nCONSTANTS MaxPrefix = %d\n FullLen = %d\n EmitMod = %d\nINVARIANT Emit\nCHECK_DEADLOCK FALSE\n" % (maxp, full, mod))
    res = common.run_tlc("GenLoc", cfg=cfg, name="gen_c06", tags={"CASE"}, workers=8, heap="8g", timeout=1500)
    common.require_ok(res, "GenLoc")
    cases = [o for (_, o) in res.lines]
    cases.sort(key=lambda o: json.dumps(o, sort_keys=True))
    total = len(cases)
    rnd = random.Random(common.seed())
    n = 24000 if tier == "quick" else 250000
    if len(cases) > n:
        # keep every (prefix of length <= 1) case, sample the rest
        short = [c for c in cases if len(c["prefix"]) <= 1]
        rest = [c for c in cases if len(c["prefix"]) > 1]
        cases = short + rnd.sample(rest, max(0, n - len(short)))
    hc = []
    for i, c in enumerate(cases):
        src, files = render_loc(c)
        c["_src"], c["_files"] = src, files
        hc.append(dict(id=i, src=src, files=files, variants=[dict(name="O1", args=["main.c", "-O1"])]))
    obs = common.run_harness("compile", hc, "c06")
    kf = {}
    for fd in verdict.findings:
        for k in fd.get("cases", []):
            kf[k] = fd["id"]
    nbad = 0
    per_kind = {}
    for c, ob in zip(cases, obs):
        o = ob[0] if ob else {"status": "missing"}
        ex = c["expected"]
        key = "%s/%s" % (c["err"]["k"], c["where"])
        pk = per_kind.setdefault(key, dict(cases=0, located=0))
        pk["cases"] += 1
        problem = None
        if o.get("status") != "err":
            problem = "expected a located error, got %s %s" % (o.get("status"), o.get("panic", ""))
        else:
            e = o["err"]
            if e.get("file") != ex["file"]:
                problem = "file %r, expected %r" % (e.get("file"), ex["file"])
            elif not (ex["lo"] <= (e.get("line") or 0) <= ex["hi"]):
                problem = "line %s, expected %s" % (e.get("line"), ex["lo"] if ex["lo"] == ex["hi"] else "%d..%d" % (ex["lo"], ex["hi"]))
            elif ex["incl"] and (not e.get("incl") or e["incl"][0] != "main.c" or e["incl"][1] != ex["inclLine"]):
                problem = "included_in %s, expected [main.c, %d]" % (json.dumps(e.get("incl")), ex["inclLine"])
            elif not ex["incl"] and e.get("incl"):
                problem = "included_in %s, expected none" % json.dumps(e.get("incl"))
        if problem is None:
            pk["located"] += 1
            continue
        # known findings are identified by (error kind, placement, class of problem, shifting construct involved)
        cls = problem.split(",")[0].split(" ")[0]
        pkinds = sorted(set(it["k"] for it in c["prefix"]))
        keys = ["%s/%s/%s" % (c["err"]["k"], c["where"], cls)] + ["%s/%s/%s/%s" % (c["err"]["k"], c["where"], cls, p) for p in pkinds] + \
               ["*/%s/%s/%s" % (c["where"], cls, p) for p in pkinds] + ["*/*/%s/%s" % (cls, p) for p in pkinds] + (["*/*/%s/crlf" % cls] if c["crlf"] else [])
        hit = [kf[k] for k in keys if k in kf]
        if hit:
            verdict.attribute(hit[0])
            continue
        nbad += 1
        verdict.violation("%s in %s after %s%s: %s" % (c["err"]["k"], c["where"], [it["k"] for it in c["prefix"]], " (CRLF)" if c["crlf"] else "", problem),
                          dict(property=pid, prefix=c["prefix"], error_item=c["err"], where=c["where"], crlf=c["crlf"], expected=ex, observed=o.get("err", o.get("status")),
                               display=o.get("display"), source=c["_src"], files=c["_files"], problem=problem, finding_keys=keys))
    cov = dict(states=res.distinct, transitions=res.generated, traces_validated_against_impl=len(cases),
               samples=[dict(prefix=[it["k"] for it in c["prefix"]], error=c["err"]["k"], where=c["where"], expected=c["expected"], source=c["_src"]) for c in cases[100:102]],
               cases_generated=total, cases_replayed=len(cases), per_error_kind=per_kind, disagreements=nbad, attributed_to_known_findings=verdict.known,
               exhaustive=(len(cases) == total),
               explanation="GenLoc.tla enumerates prefixes of line-shifting constructs (comments, splices, defines, skipped/taken conditionals, includes with and "
                           "without final newline, assembler includes, CR-LF) followed by one error of each kind in the main file or in a header, and computes the "
                           "origin; the real compiler's Error{filename,line,included_in} must name it.")
    common.write_evidence(pid, tier, "model_checking", cov, time.time() - t0, len(verdict.violations), ["columns are not checked", "renderer asserted to produce the stated line counts"])
    return verdict.finish(max_print=12)


REGISTRY["C06"] = c06


# ---------------------------------------------------------------------------------------------
# C09: string and character literals are stored byte-exact
# ---------------------------------------------------------------------------------------------
def render_lit(c):
    raw = "".join(c["raw"])
    k = c["ctx"]
    pro = "#define MAC 7\n#define Q 5\n"
    if k == "init":
        return pro + 'const char *v0 = "%s";\nvoid main() { }\n' % raw
    if k == "ptrtable":
        return pro + 'const char *t0[] = {"%s", "zz"};\nvoid main() { }\n' % raw
    if k == "concat":
        return pro + 'const char *v0 = "%s" "Zz";\nvoid main() { }\n' % raw
    if k == "callarg":
        return pro + 'void pr(char *s) { }\nvoid main() { pr("%s"); }\n' % raw
    if k == "twocalls":      # two literals in different nested sub-expressions of one statement: both must be stored
        return pro + 'char r0;\nchar g0(char *s) { return s[0]; }\nchar f0(char *s) { return s[1]; }\nvoid main() { r0 = g0("%s") + f0("Zq"); }\n' % raw
    if k == "subscript":     # a literal inside an array subscript, another one after it
        return pro + 'char a0[4];\nchar g0(char *s) { return s[0]; }\nchar f0(char *s) { return s[1]; }\nvoid main() { X = a0[g0("%s")] + f0("Zq"); }\n' % raw
    if k == "asm":
        return pro + 'void main() { asm("%s", 3); }\n' % raw
    if k == "twoline":
        return pro + 'const char *v0 = "%s"; const char *w0 = "%s";\nvoid main() { }\n' % (raw, raw)
    if k == "aftercode":
        return pro + 'char q0; const char *v0 = "%s"; // trailing "comment" /* x */\nvoid main() { }\n' % raw
    if k == "inif":
        return pro + '#if 1\nconst char *v0 = "%s";\n#endif\nvoid main() { }\n' % raw
    if k == "afterskipped":     # a literal in an unselected region must not disturb the literals that follow
        return pro + '#if 0\nconst char *u0 = "skipped %s";\n#endif\nconst char *v0 = "%s";\nvoid main() { }\n' % (raw, raw)
    if k == "afterelse":
        return pro + '#ifdef MAC\nconst char *v0 = "%s";\n#else\nconst char *v0 = "other";\nconst char *w0 = "more";\n#endif\nconst char *z0 = "tail";\nvoid main() { }\n' % raw
    if k == "charconst":
        return pro + "const char c0 = '%s';\nvoid main() { }\n" % raw
    raise ValueError(k)


def arr_of(vars_, name):
    for v in vars_:
        if v["name"] == name and v["def"] and "array" in v["def"]:
            return [e.get("int") for e in v["def"]["array"]]
    return None


def observe_lit(c, o):
    """-> (observed bytes list or None, note)"""
    k = c["ctx"]
    vs = o["vars"]
    if k in ("init", "concat", "aftercode", "inif", "afterskipped"):
        return arr_of(vs, "v0")
    if k == "afterelse":
        z = arr_of(vs, "z0")
        return arr_of(vs, "v0") if z == [116, 97, 105, 108, 0] else ["z0 holds", z]
    if k == "twoline":
        a, b = arr_of(vs, "v0"), arr_of(vs, "w0")
        return a if a == b else ["v0/w0 differ", a, b]
    if k == "ptrtable":
        for v in vs:
            if v["name"] == "t0" and v["def"] and "ptrs" in v["def"]:
                return arr_of(vs, v["def"]["ptrs"][0][0])
        return None
    if k == "callarg":
        lits = [v for v in vs if v["name"].startswith("cctmp") and v["def"] and "array" in v["def"]]
        return [e.get("int") for e in lits[0]["def"]["array"]] if len(lits) == 1 else ["literal count", len(lits)]
    if k in ("twocalls", "subscript"):
        lits = [[e.get("int") for e in v["def"]["array"]] for v in vs if v["name"].startswith("cctmp") and v["def"] and "array" in v["def"]]
        if len(lits) != 2 or [90, 113, 0] not in lits:
            return ["literals stored", lits]
        lits.remove([90, 113, 0])
        return lits[0]
    if k == "asm":
        for f in o["funcs"]:
            if f["name"] == "main":
                t = [l["text"] for l in f["lines"] if l["k"] == "a"]
                return [ord(ch) for ch in t[0]] + [0] if len(t) == 1 else ["asm lines", len(t)]
        return None
    if k == "charconst":
        for v in vs:
            if v["name"] == "c0" and v["def"] and "value" in v["def"]:
                return [v["def"]["value"].get("int")]
        return None


def render_shape(t, k):
    """-> (text, next literal number)"""
    if t["k"] == "lit":
        return 'g0("q%d")' % k, k + 1
    if t["k"] == "bin":
        a, k = render_shape(t["a"], k)
        b, k = render_shape(t["b"], k)
        return a + " + " + b, k
    e, k = render_shape(t["e"], k)
    return {"par": "(%s)", "sub": "a0[%s]", "arg": "f1(%s)"}[t["k"]] % e, k


def shape_cases(tier, verdict, pid):
    d = common.workdir("gen_c09s")
    cfg = os.path.join(d, "GenLitShape.cfg")
    open(cfg, "w").write("INIT Init\nNEXT Next\nCONSTANTS MaxLits = %d\n MaxDepth = 3\nINVARIANT Emit\nCHECK_DEADLOCK FALSE\n" % (3 if tier == "quick" else 4))
    res = common.run_tlc("GenLitShape", cfg=cfg, name="gen_c09s", tags={"CASE"}, workers=4, heap="6g", timeout=1500)
    common.require_ok(res, "GenLitShape")
    cases = [o for (_, o) in res.lines]
    cases.sort(key=lambda o: json.dumps(o, sort_keys=True))
    if len(cases) > 12000:
        cases = random.Random(common.seed()).sample(cases, 12000)
    head = "char a0[4]; char r0;\nchar g0(char *s) { return s[0]; }\nchar f1(char x) { return x; }\n"
    hc = []
    for i, c in enumerate(cases):
        e, n = render_shape(c["shape"], 0)
        assert n == c["lits"]
        body = {"assign": "void main() { X = %s; }\n", "cond": "void main() { if (%s) r0 = 1; }\n", "ret": "char h0() { return %s; }\nvoid main() { r0 = h0(); }\n"}[c["ctx"]] % e
        c["_src"] = head + body
        hc.append(dict(id=i, src=c["_src"], variants=[dict(name="O1", args=["-O1"])]))
    obs = common.run_harness("compile", hc, "c09s")
    ok = refused = bad = 0
    for c, ob in zip(cases, obs):
        o = ob[0] if ob else {"status": "missing"}
        if o.get("status") == "err":
            refused += 1
            continue
        want = sorted([113, 48 + k, 0] for k in range(c["lits"]))
        if o.get("status") != "ok":
            problem = "compiler %s: %s" % (o.get("status"), str(o.get("panic", ""))[:120])
        else:
            got = sorted([e.get("int") for e in v["def"]["array"]] for v in o["vars"] if v["name"].startswith("cctmp") and v["def"] and "array" in v["def"])
            if got == want:
                ok += 1
                continue
            problem = "literals stored %s, the source has %s" % (json.dumps(got), json.dumps(want))
        bad += 1
        verdict.violation("literals in one expression (%s): %s" % (c["_src"].splitlines()[-1][:80] if c["ctx"] != "ret" else c["_src"].splitlines()[-2][:80], problem[:160]),
                          dict(property=pid, layer="GenLitShape", shape=c["shape"], context=c["ctx"], source=c["_src"], problem=problem))
    if ok < 50 and bad == 0:
        raise common.ToolError("vacuous: %d expression shapes accepted" % ok)
    return len(cases), ok, refused, bad


def c09(tier):
    t0 = time.time()
    pid = "C09"
    verdict = common.Verdict(pid)
    d = common.workdir("gen_c09")
    cfg = os.path.join(d, "GenLit.cfg")
    maxlen = 2 if tier == "quick" else 3
    open(cfg, "w").write("SPECIFICATION Spec\nCONSTANTS MaxLen = %d\n Alphabet <- FullAlphabet\nINVARIANT Emit\nCHECK_DEADLOCK FALSE\n" % maxlen)
    res = common.run_tlc("MCGenLit", cfg=cfg, name="gen_c09", tags={"CASE"}, workers=8, heap="8g", timeout=1500)
    common.require_ok(res, "GenLit")
    cases = [o for (_, o) in res.lines]
    cases.sort(key=lambda o: json.dumps(o, sort_keys=True))
    total = len(cases)
    if tier == "thorough" and len(cases) > 120000:
        rnd = random.Random(common.seed())
        short = [c for c in cases if len(c["body"]) <= 2]
        cases = short + rnd.sample([c for c in cases if len(c["body"]) > 2], 120000 - len(short))
    hc = []
    for i, c in enumerate(cases):
        c["_src"] = render_lit(c)
        hc.append(dict(id=i, src=c["_src"], variants=[dict(name="O1", args=["-O1"])]))
    obs = common.run_harness("compile", hc, "c09")
    kf = {}
    for fd in verdict.findings:
        for k in fd.get("cases", []):
            kf[k] = fd["id"]
    nbad = 0
    accepted = rejected = 0
    for c, ob in zip(cases, obs):
        o = ob[0] if ob else {"status": "missing"}
        want = list(c["bytes"])
        if c["ctx"] == "concat":
            want = want[:-1] + [90, 122, 0]
        problem = None
        if o.get("status") == "err":
            rejected += 1       # the property speaks of literals the compiler accepts
            continue
        if o.get("status") != "ok":
            problem = "compiler %s: %s" % (o.get("status"), o.get("panic", ""))
        else:
            accepted += 1
            got = observe_lit(c, o)
            if got != want:
                problem = "stored %s, expected %s" % (json.dumps(got), json.dumps(want))
        if problem is None:
            continue
        # a known finding is identified by the symbol that triggers it (and, where it matters, the context)
        keys = ["sym:%s" % s for s in c["body"]] + ["sym:%s/%s" % (s, c["ctx"]) for s in c["body"]] + ["ctx:%s" % c["ctx"]]
        hit = [kf[k] for k in keys if k in kf]
        if hit:
            verdict.attribute(hit[0])
            continue
        nbad += 1
        verdict.violation('%s literal "%s": %s' % (c["ctx"], "".join(c["raw"]), problem[:150]),
                          dict(property=pid, body=c["body"], raw="".join(c["raw"]), context=c["ctx"], expected_bytes=want, problem=problem, source=c["_src"], finding_keys=keys))
    if (accepted < 100) and not verdict.violations:      # (a run that found violations reports them)
        raise common.ToolError("vacuous: %d literals accepted" % accepted)
    # ---- GenLitShape.tla: several literals inside one expression, in every arrangement of parentheses, subscripts, call arguments and
    # binary operators within the bound: each literal of the source must be stored, once, with its own bytes
    sh_total, sh_ok, sh_refused, sh_bad = shape_cases(tier, verdict, pid)
    # ---- Layer 2: CppScan.tla (the scanner that extracts the literals, as coded), see C11; here the extracted literals are judged
    from . import cppscan
    sdistinct, snconfs, sdrift, _st, slits = cppscan.run_both(tier, "c09", light=True)
    if sdrift:
        print("[vf] NOTE: cpp::process no longer behaves like CppScan.tla on %d of %d replayed texts (model drift), e.g. %s" % (len(sdrift), snconfs, json.dumps(sdrift[0])[:400]))
    for v in slits:
        verdict.violation("literal extraction: %r yields %s, the textbook scanner %s" % (v["text"], json.dumps(v["literals"]), json.dumps(v["textbook"])),
                          dict(property=pid, layer="CppScan", text=v["text"], literals=v["literals"], textbook=v["textbook"]))
    layer2 = dict(texts_model_checked=sdistinct, invariants=["TextReq", "LitReq", "CommentReq", "LinesReq"], texts_replayed_into_cpp_process=snconfs,
                  model_conformant=(len(sdrift) == 0), first_drift=(sdrift[0] if sdrift else None), drifts=len(sdrift), literal_lists_differing_from_textbook=len(slits))
    cov = dict(states=res.distinct + sdistinct, transitions=res.generated, traces_validated_against_impl=len(cases) + snconfs + sh_total, layer2_CppScan=layer2,
               expression_shapes=dict(replayed=sh_total, stored_exactly=sh_ok, refused_by_compiler=sh_refused, disagreements=sh_bad),
               samples=[dict(body=c["body"], context=c["ctx"], source=c["_src"], expected_bytes=c["bytes"]) for c in cases[50:53]],
               literals_generated=total, literals_replayed=len(cases), accepted=accepted, rejected_by_compiler=rejected, disagreements=nbad,
               attributed_to_known_findings=verdict.known, max_body_symbols=maxlen, exhaustive=(len(cases) == total),
               explanation="GenLit.tla enumerates literal bodies over Lexer.tla's symbol alphabet (letters, digits, every escape, escaped quote and backslash, "
                           "comment markers, #, @, a macro name, ...) in nine contexts; the bytes stored by the real compiler must equal Lexer!LiteralBytes.")
    common.write_evidence(pid, tier, "model_checking", cov, time.time() - t0, len(verdict.violations), ["literals the compiler refuses are not judged (C16 judges refusals)"])
    return verdict.finish(max_print=12)


REGISTRY["C09"] = c09


# ---------------------------------------------------------------------------------------------
# C08: macro expansion is token-exact
# ---------------------------------------------------------------------------------------------
_TOK = re.compile(r'@\d+@|"(?:[^"\\]|\\.)*"|[A-Za-z_][A-Za-z0-9_]*|\d+|\S')


def join_tokens(ts, tight):
    """tight=True: no layout unless two word tokens touch; False: spaces everywhere except between a name and the
    parenthesis that follows it; "callspace": spaces everywhere (a space between a macro name and its argument list is legal C)"""
    out = ""
    prev = None
    for t in ts:
        if out:
            if tight is True:
                sp = re.match(r"\w", t[0]) and re.match(r"\w", out[-1])
            elif tight == "callspace":
                sp = True
            else:
                sp = not (t == "(" and prev is not None and re.match(r"[A-Za-z_]", prev[0])) and not (t == ")" and prev == "(")
            if sp:
                out += " "
        out += t
        prev = t
    return out


def render_macro(c, tight, defsplice=False):
    """defsplice: a backslash-newline between the name of a function-like macro and its parameter list, and inside bodies
    (removed before the directive is read: the definition is the same)"""
    lines, defines = [], []
    for i in range(c["filler"]):
        lines.append("#define FILL%d %d" % (i, i))
    first = True
    for d in c["dirs"]:
        if d["k"] == "undef":
            lines.append("#undef " + d["name"])
            continue
        body = join_tokens(d["body"], tight is True)      # the body follows the rendering of the use: `#define V (vq)` / `#define V ( vq )`
        if first and c["origin"] == "cmdline" and not d["fn"]:
            defines.append("%s=%s" % (d["name"], body))
        elif d["fn"] and defsplice:
            lines.append("#define %s\\\n(%s) \\\n%s" % (d["name"], ", ".join(d["params"]), body.replace(" ", " \\\n", 1)))
        elif d["fn"]:
            lines.append("#define %s(%s) %s" % (d["name"], ", ".join(d["params"]), body))
        else:
            lines.append("#define %s %s" % (d["name"], body))
        first = False
    lines.append("USE_BEGIN " + join_tokens(c["use"], tight) + " USE_END")
    return "\n".join(lines) + "\n", defines


def c08(tier):
    t0 = time.time()
    pid = "C08"
    verdict = common.Verdict(pid)
    d = common.workdir("gen_c08")
    cfg = os.path.join(d, "GenMacro.cfg")
    open(cfg, "w").write("INIT Init\nNEXT Next\nINVARIANT Emit\nCHECK_DEADLOCK FALSE\n")
    res = common.run_tlc("GenMacro", cfg=cfg, name="gen_c08", tags={"CASE", "DOPT"}, workers=8, heap="8g", timeout=1500)
    common.require_ok(res, "GenMacro")
    cases = [o for (t, o) in res.lines if t == "CASE"]
    dopts = [o for (t, o) in res.lines if t == "DOPT"]
    cases.sort(key=lambda o: json.dumps(o, sort_keys=True))
    total = len(cases)
    if tier == "quick":
        rnd = random.Random(common.seed())
        base = [c for c in cases if c["filler"] == 0 and len(c["dirs"]) <= 2]
        rest = [c for c in cases if c["filler"] == 0 and len(c["dirs"]) > 2]
        fill = [c for c in cases if c["filler"] != 0]      # each costs ~0.2 s (the regex set is rebuilt per #define)
        # removals in two different blocks of 100 macros (a filler of the first block, then a macro that lies in a later block)
        two = [c for c in fill if c["filler"] >= 100 and any(dd["k"] == "undef" and dd["name"] == "FILL3" for dd in c["dirs"])]
        cases = base + rnd.sample(rest, min(len(rest), 9000)) + rnd.sample(fill, min(len(fill), 400)) + rnd.sample(two, min(len(two), 120))
    else:
        rnd = random.Random(common.seed())
        fill = [c for c in cases if c["filler"] != 0]
        cases = [c for c in cases if c["filler"] == 0] + rnd.sample(fill, min(len(fill), 6000))
    hc, meta = [], []
    for i, c in enumerate(cases):
        modes = [True, False]
        if i % 40 == 0 and any(dd.get("fn") for dd in c["dirs"] if dd["k"] == "define") and "(" in c["use"]:
            modes.append("callspace")
        for tight in modes:
            src, defines = render_macro(c, tight)
            hc.append(dict(id=len(hc), src=src, file="main.c", defines=defines, query=["N", "F", "xx"]))
            meta.append((c, tight, src, defines))
        if i % 25 == 7 and any(dd.get("fn") for dd in c["dirs"] if dd["k"] == "define"):
            src, defines = render_macro(c, True, defsplice=True)
            hc.append(dict(id=len(hc), src=src, file="main.c", defines=defines, query=["N", "F", "xx"]))
            meta.append((c, "defsplice", src, defines))
    obs = common.run_harness("cpp", hc, "c08", deadline_ms=4000)
    kf = {}
    for fd in verdict.findings:
        for k in fd.get("cases", []):
            kf[k] = fd["id"]
    nbad = expanded = 0
    for (c, tight, src, defines), ob in zip(meta, obs):
        o = ob[0] if ob else {"status": "missing"}
        problem = None
        got = None
        if o.get("status") != "ok":
            problem = "preprocessor %s %s" % (o.get("status"), json.dumps(o.get("err", o.get("panic", "")))[:100])
        else:
            line = [l for l in o["text"].split("\n") if "USE_BEGIN" in l]
            if len(line) != 1:
                problem = "use line lost or duplicated"
            else:
                toks = _TOK.findall(line[0])
                toks = ['"%s"' % o["literals"][int(t[1:-1])] if re.fullmatch(r"@\d+@", t) else t for t in toks]
                got = toks[1:-1] if toks and toks[0] == "USE_BEGIN" and toks[-1] == "USE_END" else toks
                if got != c["expected"]:
                    problem = "expanded to %s, expected %s" % (" ".join(got), " ".join(c["expected"]))
                if c["expected"] != c["use"]:
                    expanded += 1
        if problem is None:
            continue
        use = " ".join(c["use"])
        keys = ["use:" + use, "use:%s/%s" % (use, "tight" if tight is True else "spaced"), "render:%s" % tight] + ["def:" + dd["name"] + "/fill%d" % c["filler"] for dd in c["dirs"] if dd["k"] == "define"]
        hit = [kf[k] for k in keys if k in kf]
        if hit:
            verdict.attribute(hit[0])
            continue
        nbad += 1
        verdict.violation("use `%s` after %s (%s, %d fillers): %s" % (join_tokens(c["use"], tight), [dd.get("name") + ("" if dd["k"] == "define" else "-undef") for dd in c["dirs"]], c["origin"], c["filler"], problem[:140]),
                          dict(property=pid, directives=c["dirs"], use=c["use"], origin=c["origin"], fillers=c["filler"], tight=tight, expected=c["expected"], observed=got, source=src, defines=defines, problem=problem, finding_keys=keys))
    # ---- -D options through compile() itself (the cpp hook has its own copy of the option parsing): the statement compiled
    # with the option must give exactly the code of the statement as MacroRef expands it, compiled without any macro
    dseen = {}
    for o in dopts:
        dseen[json.dumps(o, sort_keys=True)] = o
    dopts = [dseen[k] for k in sorted(dseen)]
    dc = []
    for i, o in enumerate(dopts):
        # the variables the statements use, except the name the option defines
        tmpl = "char %s;\nvoid main()\n{\n  %%s;\n}\n" % ", ".join(v for v in ("r", "q", "N1") if v != o["opt"][0])
        dc.append(dict(id=2 * i, src=tmpl % " ".join(o["stmt"]), variants=[dict(name="opt", args=["-O1", "-D" + "".join(o["opt"])])]))
        dc.append(dict(id=2 * i + 1, src=tmpl % " ".join(o["expected"]), variants=[dict(name="ref", args=["-O1"])]))
    dobs = common.run_harness("compile", dc, "c08d")
    dopt_ok = 0
    for i, o in enumerate(dopts):
        a = dobs[2 * i][0] if dobs[2 * i] else {"status": "missing"}
        b = dobs[2 * i + 1][0] if dobs[2 * i + 1] else {"status": "missing"}
        code = lambda x: [(f["name"], [(l["k"], l.get("mn"), l.get("op"), l.get("name")) for l in f["lines"] if l["k"] in ("i", "l", "a")]) for f in x.get("funcs", [])]
        if b.get("status") != "ok":
            raise common.ToolError("-D reference program rejected: %s" % json.dumps(b)[:300])
        if a.get("status") == "ok" and code(a) == code(b):
            dopt_ok += 1
            continue
        nbad += 1
        verdict.violation("option -D%s: `%s` does not compile like `%s`" % ("".join(o["opt"]), " ".join(o["stmt"]), " ".join(o["expected"])),
                          dict(property=pid, option="-D" + "".join(o["opt"]), statement=o["stmt"], expected_expansion=o["expected"], with_option=a.get("err", code(a)), reference=code(b)))
    if (len(dopts) < 6) and not verdict.violations:      # (a run that found violations reports them)
        raise common.ToolError("vacuous: %d -D cases" % len(dopts))
    if (expanded < 100) and not verdict.violations:      # (a run that found violations reports them)
        raise common.ToolError("vacuous: %d cases with an actual expansion" % expanded)
    cov = dict(states=res.distinct, transitions=res.generated, traces_validated_against_impl=len(hc),
               samples=[dict(source=m[2], defines=m[3], expected=m[0]["expected"]) for m in meta[200:203]],
               cases_generated=total, cases_replayed=len(cases), renderings=len(hc), with_actual_expansion=expanded, disagreements=nbad,
               dash_D_options_through_compile=dict(cases=len(dopts), agree=dopt_ok),
               attributed_to_known_findings=verdict.known, exhaustive=(len(cases) == total),
               explanation="GenMacro.tla enumerates definition subsets (object-like, function-like with 0-3 parameters, bodies using earlier macros, parameter names "
                           "that are substrings of other identifiers), #undef/redefinition tails, source vs -D origin, 0..198 filler macros (chunk boundaries) and 45 use "
                           "sites (adjacent operators, inside longer identifiers, inside strings, nested calls, parentheses depth 1-5); the preprocessed token sequence must "
                           "equal MacroRef!Expand, for a tight and a spaced rendering.")
    common.write_evidence(pid, tier, "model_checking", cov, time.time() - t0, len(verdict.violations), ["no # / ## operators, variadics or recursive macros (outside the property)"])
    return verdict.finish(max_print=12)


REGISTRY["C08"] = c08
