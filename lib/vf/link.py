"""Layout and linking of emitted code for the 6502 machine specification.

Trusted harness component (see DESIGN.md section 5): assigns an address to every variable, splits
operand strings into (syntax class, value) and resolves labels to instruction indices.  It does NOT
decide addressing modes, sizes or legality - Enc6502/M6502/Asm do.
"""
import re

TMP_ADDR = 0x80


class LinkError(Exception):
    pass


def var_bytes(v):
    t, size = v["type"], v["size"]
    if size > 1:
        return size * {"CharPtr": 1, "CharPtrPtr": 2, "ShortPtr": 2}[t]
    return {"Char": 1, "Short": 2, "CharPtr": 2, "CharPtrPtr": 2, "ShortPtr": 2}[t]


def layout(vars_, scheme="4K", io_names=()):
    """Returns (addr: name->address, regions, romdata: addr->byte, info: name->dict)."""
    addr = {"cctmp": TMP_ADDR}
    regions = [dict(lo=0x80, hi=0xFF, kind="ram", delta=0)]
    rom = {}
    zp = 0x81
    sc = 0x1000        # superchip write port
    oc = {}            # memory on chip per bank
    other = 0x1800
    romp = 0xF000
    has_sc = False
    has_oc = False
    const_syms = {}
    for v in vars_:
        name, mem, d = v["name"], v["mem"], v["def"]
        if mem == "Dummy":
            continue
        if d is not None and "value" in d:
            val = d["value"]
            if "int" in val:
                const_syms[name] = val["int"] & 0xFFFF
            continue
    pending_ptr_values = []
    for v in vars_:
        name, mem, d = v["name"], v["mem"], v["def"]
        if mem == "Dummy" or name in const_syms:
            continue
        if d is not None and "value" in d:
            pending_ptr_values.append(v)
            continue
        n = var_bytes(v)
        if d is not None:   # initialised table: ROM
            a = romp
            romp += n if "array" in d else 2 * len(d.get("ptrs", []))
            addr[name] = a
            continue
        if mem == "Zeropage":
            addr[name] = zp
            zp += n
            if zp > 0x100:
                raise LinkError("zero page overflow")
        elif mem == "Superchip":
            addr[name] = sc
            sc += n
            has_sc = True
            if sc > 0x1080:
                raise LinkError("superchip overflow")
        elif mem.startswith("MemoryOnChip"):
            bank = int(mem[mem.index("(") + 1:-1])
            base = 0x1000
            a = oc.get(bank, base)
            addr[name] = a
            oc[bank] = a + n
            has_oc = True
        else:   # Ramchip, Ramplus, Display, Frequency: plain absolute RAM
            addr[name] = other
            other += n
    # ROM contents
    for v in vars_:
        name, d = v["name"], v["def"]
        if name not in addr or d is None:
            continue
        a = addr[name]
        if "array" in d:
            if v["type"] == "ShortPtr":
                n = len(d["array"])
                for i, e in enumerate(d["array"]):
                    val = _cval(e, addr, const_syms) & 0xFFFF
                    rom[a + i] = val & 0xFF
                    rom[a + n + i] = val >> 8
            else:
                for i, e in enumerate(d["array"]):
                    rom[a + i] = _cval(e, addr, const_syms) & 0xFF
        elif "ptrs" in d:
            n = len(d["ptrs"])
            for i, (s, o) in enumerate(d["ptrs"]):
                val = (const_syms.get(s, addr.get(s, 0)) + o) & 0xFFFF if s != "__address__" else o & 0xFFFF
                rom[a + i] = val & 0xFF
                rom[a + n + i] = val >> 8
    for v in pending_ptr_values:     # const x = &y style EQUs
        val = v["def"]["value"]
        if "lo" in val:
            const_syms[v["name"]] = (addr.get(val["lo"], const_syms.get(val["lo"], 0)) + val["off"]) & 0xFF
        elif "hi" in val:
            const_syms[v["name"]] = ((addr.get(val["hi"], const_syms.get(val["hi"], 0)) + val["off"]) >> 8) & 0xFF
    addr.update(const_syms)
    if has_sc:
        regions.append(dict(lo=0x1000, hi=0x107F, kind="wrport", delta=0))
        regions.append(dict(lo=0x1080, hi=0x10FF, kind="rdport", delta=-0x80))
    if has_oc:
        if scheme == "3E":
            regions.append(dict(lo=0x1000, hi=0x13FF, kind="rdport", delta=0))
            regions.append(dict(lo=0x1400, hi=0x17FF, kind="wrport", delta=-0x400))
        elif scheme == "3EP":
            regions.append(dict(lo=0x1000, hi=0x11FF, kind="rdport", delta=0))
            regions.append(dict(lo=0x1200, hi=0x13FF, kind="wrport", delta=-0x200))
        else:
            regions.append(dict(lo=0x1000, hi=0x17FF, kind="ram", delta=0))
    if other > 0x1800:
        regions.append(dict(lo=0x1800, hi=other - 1, kind="ram", delta=0))
    if romp > 0xF000:
        regions.append(dict(lo=0xF000, hi=romp - 1, kind="rom", delta=0))
    # constant-address symbols (hardware registers, DUMMY): io class when declared so, else ram
    io_regs = []
    for n, a in const_syms.items():
        kind = "io" if n in io_names else "ram"
        if not (0x80 <= a <= 0xFF and kind == "ram"):
            io_regs.append(dict(lo=a, hi=a, kind=kind, delta=0))
    regions = io_regs + regions      # first match wins
    return addr, regions, rom, const_syms


def _cval(e, addr, const_syms):
    if "int" in e:
        return e["int"]
    if "lo" in e:
        return (addr.get(e["lo"], const_syms.get(e["lo"], 0)) + e["off"]) & 0xFF
    return ((addr.get(e["hi"], const_syms.get(e["hi"], 0)) + e["off"]) >> 8) & 0xFF


_SYM = r"[A-Za-z_.][A-Za-z0-9_.]*"
_EXPR = re.compile(r"^\(?\s*(" + _SYM + r"|\$[0-9a-fA-F]+|\d+)\s*(?:([+-])\s*(\$[0-9a-fA-F]+|\d+))?\s*\)?$")


def _num(tok):
    return int(tok[1:], 16) if tok.startswith("$") else int(tok)


def eval_expr(s, addr):
    m = _EXPR.match(s.strip())
    if not m:
        raise LinkError("operand expression %r" % s)
    base = m.group(1)
    if base[0].isdigit() or base[0] == "$":
        v = _num(base)
    else:
        if base not in addr:
            raise LinkError("undefined symbol %s" % base)
        v = addr[base]
    if m.group(2):
        o = _num(m.group(3))
        v = v + o if m.group(2) == "+" else v - o
    return v


BRANCHES = {"BPL", "BMI", "BVC", "BVS", "BCC", "BCS", "BNE", "BEQ"}


def parse_operand(mn, op, addr):
    """-> (syntax, value, label)"""
    op = op.strip()
    if op == "":
        return "none", 0, None
    if mn in BRANCHES or mn in ("JMP", "JSR"):
        if op.startswith("("):
            return "ind", eval_expr(op[1:-1], addr), None
        return "label", 0, op
    if op.startswith("#"):
        body = op[1:].strip()
        if body.startswith("<"):
            return "imm", eval_expr(body[1:], addr) & 0xFF, None
        if body.startswith(">"):
            return "imm", (eval_expr(body[1:], addr) >> 8) & 0xFF, None
        return "imm", eval_expr(body, addr) & 0xFF, None
    m = re.match(r"^\((.*)\)\s*,\s*[Yy]$", op)
    if m:
        return "indy", eval_expr(m.group(1), addr) & 0xFFFF, None
    m = re.match(r"^\((.*),\s*[Xx]\s*\)$", op)
    if m:
        return "indx", eval_expr(m.group(1), addr) & 0xFFFF, None
    m = re.match(r"^(.*),\s*([XxYy])$", op)
    if m:
        return m.group(2).lower(), eval_expr(m.group(1), addr) & 0xFFFF, None
    return "plain", eval_expr(op, addr) & 0xFFFF, None


_INL = re.compile(r"^\s*([A-Za-z]{3})\b\s*(.*?)\s*(?:;.*)?$")


def link(funcs, addr, entry="main", order=None):
    """funcs: list of {name, lines:[...]} as dumped by the harness.  Returns (code, entry_index, labels).
    Each function is followed by an RTS (as the reference builder writes it).  Labels are local to their
    function; function names are global."""
    code = []
    glabels = {}
    pend = []
    # bodies of inline functions are templates (their `JMP .endof` is only defined once expanded): not emitted
    names = [f["name"] for f in funcs if f.get("lines") is not None and not f.get("inline")]
    order = order or ([entry] + [n for n in names if n != entry])
    byname = {f["name"]: f for f in funcs}
    for fn in order:
        f = byname[fn]
        glabels[fn] = len(code) + 1
        local = {}
        start = len(code)
        for l in f["lines"]:
            k = l["k"]
            if k == "l":
                if l["name"] in local:
                    raise LinkError("duplicate label %s in %s" % (l["name"], fn))
                local[l["name"]] = len(code) + 1
            elif k == "i":
                syn, val, lab = parse_operand(l["mn"], l["op"], addr)
                code.append({"op": l["mn"], "syn": syn, "a": val, "t": 0, "p": 1 if l.get("prot") else 0, "_lab": lab, "_fn": fn})
            elif k == "a":
                m = _INL.match(l["text"])
                if m and len(m.group(1)) == 3:
                    mn = m.group(1).upper()
                    try:
                        syn, val, lab = parse_operand(mn, m.group(2), addr)
                        code.append({"op": mn, "syn": syn, "a": val, "t": 0, "_lab": lab, "_fn": fn})
                    except LinkError:
                        code.append({"op": "???", "syn": "none", "a": 0, "t": 0, "_lab": None, "_fn": fn})
                else:
                    code.append({"op": "???", "syn": "none", "a": 0, "t": 0, "_lab": None, "_fn": fn})
        code.append({"op": "RTS", "syn": "none", "a": 0, "t": 0, "_lab": None, "_fn": fn})
        for ins in code[start:]:
            if ins["_lab"] is not None:
                pend.append((ins, local))
    for ins, local in pend:
        lab = ins["_lab"]
        if lab in local:
            ins["t"] = local[lab]
        elif lab in glabels:
            ins["t"] = glabels[lab]
        else:
            raise LinkError("undefined label %s in %s" % (lab, ins["_fn"]))
    for ins in code:
        del ins["_lab"], ins["_fn"]
    return code, glabels[entry], glabels
