"""C10 (constant expressions), C12 (call graph), C16 (totality), C05 (determinism)."""
import json, os, random, re, time, hashlib, subprocess
from . import common
from .common import log

REGISTRY = {}


# ---------------------------------------------------------------------------------------------
# C10
# ---------------------------------------------------------------------------------------------
CHR = {10: "'\\n'", 9: "'\\t'", 0: "'\\0'", 92: "'\\\\'", 39: "'\\''"}


def render_num(t):
    v, f = t["v"], t.get("form", "dec")
    if f == "hex":
        return "0x%x" % v
    if f == "oct":
        return "0%o" % v if v else "00"
    if f == "chr":
        return CHR.get(v, "'%s'" % chr(v))
    return str(v)


def render_calc(tokens, tight=False):
    out = []
    for t in tokens:
        out.append(render_num(t) if t["t"] == "n" else t["s"])
    s = ""
    for x in out:
        if tight:
            # (the grammar allows no layout inside aligned(..)); only keep apart what would fuse into another token
            s += (" " if s and ((s[-1].isalnum() and x[0].isalnum()) or (s[-1] + x[0]) in ("--", "++", "<<", ">>", "&&", "||", "==", "!=", "<=", ">=", "-~", "!~")) else "") + x
            continue
        # keep unary minus apart from a preceding minus ("- -1" not "--1")
        s += (" " if s and (s[-1].isalnum() or x[0].isalnum() or x[0] == "'" or s[-1] in "-+!~<>=&|") else "") + x
    return s


def render_pos(expr, pos):
    if pos == "init":
        return "const short v0 = %s;\nvoid main() { }\n" % expr
    if pos == "arrsize":
        return "char a0[%s];\nvoid main() { }\n" % expr
    if pos == "arrelem":
        return "const short t0[] = {%s, 1};\nvoid main() { }\n" % expr
    if pos == "aligned":
        return "aligned(%s) char al0;\nvoid main() { }\n" % expr
    if pos == "asmsize":
        return 'void main() { asm("NOP", %s); }\n' % expr
    raise ValueError(pos)


def observe_calc(pos, o):
    for v in o["vars"]:
        if pos == "init" and v["name"] == "v0":
            return v["def"]["value"]["int"] if v["def"] else None
        if pos == "arrsize" and v["name"] == "a0":
            return v["size"]
        if pos == "arrelem" and v["name"] == "t0":
            return v["def"]["array"][0]["int"]
        if pos == "aligned" and v["name"] == "al0":
            return v["align"]
    if pos == "asmsize":
        for f in o["funcs"]:
            if f["name"] == "main":
                return [l["nb"] for l in f["lines"] if l["k"] == "a"][0]
    return None


def c10(tier):
    t0 = time.time()
    pid = "C10"
    verdict = common.Verdict(pid)
    d = common.workdir("gen_c10")
    cfg = os.path.join(d, "GenCalc.cfg")
    open(cfg, "w").write("INIT Init\nNEXT Next\nINVARIANT Emit\nCHECK_DEADLOCK FALSE\n")
    res = common.run_tlc("GenCalc", cfg=cfg, name="gen_c10", tags={"CASE"}, workers=8, heap="8g", timeout=1500)
    common.require_ok(res, "GenCalc")
    cases = [o for (_, o) in res.lines]
    cases.sort(key=lambda o: json.dumps(o, sort_keys=True))
    total = len(cases)
    usable = []
    skipped = 0
    for c in cases:
        if c["bad"] in ("undef", "syntax"):
            skipped += 1
            continue
        if c["pos"] in ("arrsize", "aligned", "asmsize") and c["bad"] == "" and not (1 <= c["v"] <= 200):
            skipped += 1      # these positions need a small positive value to be meaningful
            continue
        usable.append(c)
    cases = usable
    if tier == "quick":
        rnd = random.Random(common.seed())
        ini = [c for c in cases if c["pos"] == "init"]
        oth = [c for c in cases if c["pos"] != "init"]
        cases = ini + rnd.sample(oth, min(len(oth), 3000))
    hc = []
    for i, c in enumerate(cases):
        c["_expr"] = render_calc(c["tokens"], tight=(c["pos"] == "aligned"))
        c["_src"] = render_pos(c["_expr"], c["pos"])
        hc.append(dict(id=i, src=c["_src"], variants=[dict(name="O1", args=["-O1"])]))
    obs = common.run_harness("compile", hc, "c10")
    kf = {}
    for fd in verdict.findings:
        for k in fd.get("cases", []):
            kf[k] = fd["id"]
    nbad = exact = errors_ok = grammar_rejects = 0
    for c, ob in zip(cases, obs):
        o = ob[0] if ob else {"status": "missing"}
        st = o.get("status")
        fits16 = c["big"] <= 65535 and c["v"] >= -32768
        must_err = c["bad"] == "div0" or c["big"] >= 2 ** 31 - 1
        problem = None
        if st not in ("ok", "err"):
            problem = "compiler %s (%s)" % (st, o.get("panic", "")[:80])
        elif must_err:
            if st != "err":
                problem = "accepted with value %s; an error is required (%s)" % (observe_calc(c["pos"], o), c["bad"] or "value does not fit")
            else:
                errors_ok += 1
        elif st == "err":
            if o["err"].get("msg", "").startswith("expected "):
                grammar_rejects += 1     # the grammar does not take this spelling at this position: a refusal, not an evaluation
            elif fits16:
                problem = "rejected (%s) although every value fits: expected %d" % (o["err"].get("msg"), c["v"])
            else:
                errors_ok += 1
        else:
            got = observe_calc(c["pos"], o)
            if got != c["v"]:
                problem = "evaluates to %s, C assigns %d" % (got, c["v"])
            else:
                exact += 1
        if problem is None:
            continue
        ops = [t["s"] for t in c["tokens"] if t["t"] == "op" and t["s"] not in "()"]
        forms = sorted(set(t.get("form") for t in c["tokens"] if t["t"] == "n"))
        keys = ["expr:" + c["_expr"]] + ["ops:" + " ".join(ops)] + ["form:" + f for f in forms] + (["overflow"] if not fits16 else [])
        hit = [kf[k] for k in keys if k in kf]
        if hit:
            verdict.attribute(hit[0])
            continue
        nbad += 1
        verdict.violation("`%s` as %s: %s" % (c["_expr"], c["pos"], problem), dict(property=pid, expression=c["_expr"], tokens=c["tokens"], position=c["pos"], c_value=c["v"], largest_intermediate=c["big"],
                                                                              undefined=c["bad"], problem=problem, source=c["_src"], finding_keys=keys))
    if exact < 200:
        raise common.ToolError("vacuous: %d exact evaluations" % exact)
    cov = dict(states=res.distinct, transitions=res.generated, traces_validated_against_impl=len(cases),
               samples=[dict(expression=c["_expr"], position=c["pos"], value=c["v"]) for c in cases[300:304]],
               cases_generated=total, skipped_undefined_or_unusable=skipped, cases_replayed=len(cases), evaluated_exactly=exact, correctly_rejected=errors_ok, refused_by_grammar=grammar_rejects,
               disagreements=nbad, attributed_to_known_findings=verdict.known, exhaustive=(tier != "quick"),
               explanation="GenCalc.tla enumerates token strings (every ordered pair of the 17 binary operators over six literal triples, parenthesised both ways, "
                           "unary operators in every operand position, chains, nested ?:, literal forms, overflow and division-by-zero edges) with the value "
                           "Calc.tla (a C-grammar precedence-climbing evaluator) assigns; each is placed in a constant position and compiled.")
    common.write_evidence(pid, tier, "model_checking", cov, time.time() - t0, len(verdict.violations),
                          ["values that do not fit 16 bits but fit 31 may be either rejected or evaluated exactly", ">> of negatives and shift counts >= 16 are not decided"])
    return verdict.finish(max_print=40)


REGISTRY["C10"] = c10
