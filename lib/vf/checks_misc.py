"""C10 (constant expressions), C12 (call graph), C16 (totality), C05 (determinism)."""
import json, os, random, re, time, hashlib, subprocess
from . import common
from .common import log

REGISTRY = {}


# ---------------------------------------------------------------------------------------------
# C10
# ---------------------------------------------------------------------------------------------
CHR = {10: "'\\n'", 9: "'\\t'", 0: "'\\0'", 92: "'\\\\'", 39: "'\\''"}


def render_num(t):
    v, f = t["v"], t.get("form", "dec")
    if f == "hex":
        return "0x%x" % v
    if f == "oct":
        return "0%o" % v if v else "00"
    if f == "chr":
        return CHR.get(v, "'%s'" % chr(v))
    return str(v)


def render_calc(tokens, tight=False):
    out = []
    for t in tokens:
        out.append(render_num(t) if t["t"] == "n" else t["s"])
    s = ""
    for x in out:
        if tight:
            # (the grammar allows no layout inside aligned(..)); only keep apart what would fuse into another token
            s += (" " if s and ((s[-1].isalnum() and x[0].isalnum()) or (s[-1] + x[0]) in ("--", "++", "<<", ">>", "&&", "||", "==", "!=", "<=", ">=", "-~", "!~")) else "") + x
            continue
        # keep unary minus apart from a preceding minus ("- -1" not "--1")
        s += (" " if s and (s[-1].isalnum() or x[0].isalnum() or x[0] == "'" or s[-1] in "-+!~<>=&|") else "") + x
    return s


def render_pos(expr, pos):
    if pos == "init":
        return "const short v0 = %s;\nvoid main() { }\n" % expr
    if pos == "arrsize":
        return "char a0[%s];\nvoid main() { }\n" % expr
    if pos == "arrelem":
        return "const short t0[] = {%s, 1};\nvoid main() { }\n" % expr
    if pos == "aligned":
        return "aligned(%s) char al0;\nvoid main() { }\n" % expr
    if pos == "asmsize":
        return 'void main() { asm("NOP", %s); }\n' % expr
    if pos == "stmt8":
        return "unsigned char r0;\nvoid main() { r0 = %s; }\n" % expr
    if pos == "stmt16":
        return "short s0;\nvoid main() { s0 = %s; }\n" % expr
    raise ValueError(pos)


def observe_stmt(pos, o):
    """value stored by main when its code is nothing but loads of immediates and stores to the destination; else None (not folded)"""
    a = None
    got = {}
    for f in o["funcs"]:
        if f["name"] != "main":
            continue
        for l in f["lines"]:
            if l["k"] != "i":
                continue
            if l["mn"] == "LDA" and re.fullmatch(r"#-?\d+", l["op"]):
                a = int(l["op"][1:]) % 256
            elif l["mn"] == "STA" and a is not None and l["op"] in ("r0", "s0", "s0+1"):
                got[l["op"]] = a
            elif l["mn"] == "RTS":
                pass
            else:
                return None
    if pos == "stmt8":
        return got.get("r0")
    if "s0" in got and "s0+1" in got:
        return got["s0"] + 256 * got["s0+1"]
    return None


def observe_calc(pos, o):
    if pos in ("stmt8", "stmt16"):
        return observe_stmt(pos, o)
    for v in o["vars"]:
        if pos == "init" and v["name"] == "v0":
            return v["def"]["value"]["int"] if v["def"] else None
        if pos == "arrsize" and v["name"] == "a0":
            return v["size"]
        if pos == "arrelem" and v["name"] == "t0":
            return v["def"]["array"][0]["int"]
        if pos == "aligned" and v["name"] == "al0":
            return v["align"]
    if pos == "asmsize":
        for f in o["funcs"]:
            if f["name"] == "main":
                return [l["nb"] for l in f["lines"] if l["k"] == "a"][0]
    return None


def c10(tier):
    t0 = time.time()
    pid = "C10"
    verdict = common.Verdict(pid)
    d = common.workdir("gen_c10")
    cfg = os.path.join(d, "GenCalc.cfg")
    open(cfg, "w").write("INIT Init\nNEXT Next\nINVARIANT Emit\nCHECK_DEADLOCK FALSE\n")
    res = common.run_tlc("GenCalc", cfg=cfg, name="gen_c10", tags={"CASE", "SIZEOF"}, workers=8, heap="8g", timeout=1500)
    common.require_ok(res, "GenCalc")
    seen_sz = set()
    res.sizeof_lines = []
    for (t, o) in res.lines:
        if t == "SIZEOF" and o["what"] not in seen_sz:
            seen_sz.add(o["what"])
            res.sizeof_lines.append((t, o))
    cases = [o for (t, o) in res.lines if t == "CASE"]
    cases.sort(key=lambda o: json.dumps(o, sort_keys=True))
    total = len(cases)
    usable = []
    skipped = 0
    for c in cases:
        if c["bad"] in ("undef", "syntax"):
            skipped += 1
            continue
        if c["pos"] in ("arrsize", "aligned", "asmsize") and c["bad"] == "" and not (1 <= c["v"] <= 200):
            skipped += 1      # these positions need a small positive value to be meaningful
            continue
        if c["pos"] in ("stmt8", "stmt16") and (c["bad"] == "overflow" or (c["bad"] == "" and c["big"] > 32767)):
            skipped += 1      # intermediate values beyond 16 bits inside a statement: not decided
            continue
        usable.append(c)
    cases = usable
    if tier == "quick":
        rnd = random.Random(common.seed())
        ini = [c for c in cases if c["pos"] in ("init", "stmt16")]
        oth = [c for c in cases if c["pos"] not in ("init", "stmt16")]
        cases = ini + rnd.sample(oth, min(len(oth), 3000))
    hc = []
    for i, c in enumerate(cases):
        c["_expr"] = render_calc(c["tokens"], tight=(c["pos"] == "aligned"))
        c["_src"] = render_pos(c["_expr"], c["pos"])
        hc.append(dict(id=i, src=c["_src"], variants=[dict(name="O1", args=["-O1"])]))
    obs = common.run_harness("compile", hc, "c10")
    kf = {}
    for fd in verdict.findings:
        for k in fd.get("cases", []):
            kf[k] = fd["id"]
    nbad = exact = errors_ok = grammar_rejects = not_folded = stmt_exact = 0
    for c, ob in zip(cases, obs):
        o = ob[0] if ob else {"status": "missing"}
        st = o.get("status")
        fits16 = c["big"] <= 65535 and c["v"] >= -32768
        must_err = c["bad"] in ("div0", "overflow") or c["big"] >= 2 ** 31 - 1
        problem = None
        if st not in ("ok", "err"):
            problem = "compiler %s (%s)" % (st, o.get("panic", "")[:80])
        elif must_err:
            if st != "err":
                problem = "accepted with value %s; an error is required (%s)" % (observe_calc(c["pos"], o), c["bad"] or "value does not fit")
            else:
                errors_ok += 1
        elif st == "err":
            if o["err"].get("msg", "").startswith("expected "):
                grammar_rejects += 1     # the grammar does not take this spelling at this position: a refusal, not an evaluation
            elif fits16:
                problem = "rejected (%s) although every value fits: expected %d" % (o["err"].get("msg"), c["v"])
            else:
                errors_ok += 1
        else:
            got = observe_calc(c["pos"], o)
            want = c["v"] % 256 if c["pos"] == "stmt8" else c["v"] % 65536 if c["pos"] == "stmt16" else c["v"]
            if c["pos"] in ("stmt8", "stmt16") and got is None:
                not_folded += 1          # computed at run time (comparisons, ...): C01's business
            elif got != want:
                problem = "evaluates to %s, C assigns %d" % (got, want)
            else:
                exact += 1
                if c["pos"] in ("stmt8", "stmt16"):
                    stmt_exact += 1
        if problem is None:
            continue
        ops = [t["s"] for t in c["tokens"] if t["t"] == "op" and t["s"] not in "()"]
        forms = sorted(set(t.get("form") for t in c["tokens"] if t["t"] == "n"))
        keys = ["expr:" + c["_expr"]] + ["ops:" + " ".join(ops)] + ["pos-ops:%s:%s" % (c["pos"], " ".join(ops))] + ["form:" + f for f in forms] + (["overflow"] if not fits16 else [])
        hit = [kf[k] for k in keys if k in kf]
        if hit:
            verdict.attribute(hit[0])
            continue
        nbad += 1
        verdict.violation("`%s` as %s: %s" % (c["_expr"], c["pos"], problem), dict(property=pid, expression=c["_expr"], tokens=c["tokens"], position=c["pos"], c_value=c["v"], largest_intermediate=c["big"],
                                                                              undefined=c["bad"], problem=problem, source=c["_src"], finding_keys=keys))
    # ---- sizeof in constant positions (values prescribed by Calc!SizeOf, printed by the generator run as SIZEOF lines)
    szcases = []
    for (_, o) in getattr(res, "sizeof_lines", []):
        szcases.append(o)
    SZ_DECL = "char sc1; short sh1; unsigned char arr8[8]; short sarr4[4]; char *ptr1; char *ptab3[3]; const char ctab5[5] = {1, 2, 3, 4, 5};\n"
    hz = []
    for i, z in enumerate(szcases):
        for pos, tmpl in (("init", "const short v0 = %s;"), ("arrsize", "char a0[%s];"), ("expr", "const short v0 = %s + 1;")):
            e = "sizeof(%s)" % z["what"]
            src = SZ_DECL + (tmpl % e) + "\nvoid main() { }\n"
            hz.append((z, pos, src))
        # the twin implementation used inside statements (generate_sizeof)
        hz.append((z, "stmt8", SZ_DECL + "unsigned char r0;\nvoid main() { r0 = sizeof(%s); }\n" % z["what"]))
    zobs = common.run_harness("compile", [dict(id=i, src=h[2], variants=[dict(name="O1", args=["-O1"])]) for i, h in enumerate(hz)], "c10z")
    sz_ok = 0
    for (z, pos, src), ob in zip(hz, zobs):
        o = ob[0] if ob else {"status": "missing"}
        want = z["size"] + (1 if pos == "expr" else 0)
        problem = None
        if o.get("status") == "err" and o["err"].get("msg", "").startswith("expected "):
            grammar_rejects += 1
            continue
        if o.get("status") != "ok":
            problem = "compiler %s: %s" % (o.get("status"), json.dumps(o.get("err", o.get("panic", "")))[:100])
        else:
            got = observe_calc("init" if pos == "expr" else pos, o)
            if pos == "stmt8" and got is None:
                continue            # not folded to an immediate (a type name is not accepted in a statement, ...)
            if got != want:
                problem = "sizeof(%s) evaluates to %s, C assigns %d" % (z["what"], got, want)
            else:
                sz_ok += 1
        if problem:
            key = "sizeof:" + z["what"]
            if key in kf:
                verdict.attribute(kf[key])
                continue
            nbad += 1
            verdict.violation("sizeof(%s) as %s: %s" % (z["what"], pos, problem), dict(property=pid, expression="sizeof(%s)" % z["what"], position=pos, c_value=want, problem=problem, source=src))
    if (exact < 200 or sz_ok < 5 or stmt_exact < 50) and not verdict.violations:      # (a run that found violations reports them)
        raise common.ToolError("vacuous: %d exact evaluations, %d sizeof" % (exact, sz_ok))
    cov = dict(states=res.distinct, transitions=res.generated, traces_validated_against_impl=len(cases),
               samples=[dict(expression=c["_expr"], position=c["pos"], value=c["v"]) for c in cases[300:304]],
               cases_generated=total, statement_positions=dict(folded_and_exact=stmt_exact, computed_at_run_time_not_judged=not_folded), sizeof_cases=len(hz), sizeof_exact=sz_ok, skipped_undefined_or_unusable=skipped, cases_replayed=len(cases), evaluated_exactly=exact, correctly_rejected=errors_ok, refused_by_grammar=grammar_rejects,
               disagreements=nbad, attributed_to_known_findings=verdict.known, exhaustive=(tier != "quick"),
               explanation="GenCalc.tla enumerates token strings (every ordered pair of the 17 binary operators over six literal triples, parenthesised both ways, "
                           "unary operators in every operand position, chains, nested ?:, literal forms, overflow and division-by-zero edges) with the value "
                           "Calc.tla (a C-grammar precedence-climbing evaluator) assigns; each is placed in a constant position and compiled.")
    common.write_evidence(pid, tier, "model_checking", cov, time.time() - t0, len(verdict.violations),
                          ["values that do not fit 16 bits but fit 31 may be either rejected or evaluated exactly", ">> of negatives and shift counts >= 16 are not decided"])
    return verdict.finish(max_print=12)


REGISTRY["C10"] = c10


# ---------------------------------------------------------------------------------------------
# C12: call graph and in-use set
# ---------------------------------------------------------------------------------------------
FN = ["main", "f1", "f2", "f3"]


def render_site(pos, callee):
    e = "%s(1)" % callee
    return {
        "stmt": "%s;" % e,
        "ifcond": "if (%s) a++;" % e,
        "whilecond": "while (%s == 77) a++;" % e,
        "arg": "a = w(%s);" % e,
        "loopbody": "for (X = 0; X < 2; X++) { %s; }" % e,
        "ternary": "a = b ? %s : 2;" % e,
        "switchcase": "switch (a) { case 1: %s; break; default: b++; }" % e,
        "assign": "b = %s + 1;" % e,
        "binop_rhs": "a = (b & 3) + %s;" % e,          # the accumulator already holds a pending operand when the call is made
        "cmp_rhs": "if ((b & 3) == %s) a++;" % e,
        "index": "a = arr[%s & 3];" % e,
        "ret": "return %s;" % e,
        "switchsel": "switch (%s) { case 1: a++; break; default: b++; }" % e,
        "forupdate": "for (X = 0; X < 2; b = %s) { X++; }" % e,
        "dowhilecond": "do { a++; } while (%s == 77);" % e,
        "argofarg": "a = w(w(%s));" % e,
    }[pos]


def render_graph(c):
    attr = c["attr"]
    inline = {"inl3": ["f3"], "inl23": ["f2", "f3"], "inl123": ["f1", "f2", "f3"], "isr_inl3": ["f3"]}.get(attr, [])
    src = {f: [] for f in FN}
    bodies = {f: [] for f in FN}
    uses_w = False
    for s in c["sites"]:
        if s["pos"] == "none":
            continue
        f, g = FN[s["from"]], FN[s["to"]]
        if s["pos"] in ("arg", "argofarg"):
            uses_w = True
            src[f].append("w")
        src[f].append(g)
        pos = s["pos"]
        if pos == "ret" and any(x.startswith("return") for x in bodies[f]):
            pos = "stmt"        # only one return per body; a further one is rendered as a plain statement
        if pos == "ret" and f == "main":
            pos = "assign"
        bodies[f].append(render_site(pos, g))
    text = "unsigned char a, b; unsigned char arr[4];\n"
    if uses_w:
        text += "char w(char x) { return x; }\n"
        src["w"] = []

    def fdef(f):
        b = bodies[f]
        rets = [x for x in b if x.startswith("return")]
        b = [x for x in b if not x.startswith("return")] + (rets[:1] if rets else ["return x;"] if f != "main" else [])
        if f == "main":
            return "void main() { %s }\n" % " ".join(b)
        return "%schar %s(char x) { %s }\n" % ("inline " if f in inline else "", f, " ".join(b))
    if attr == "proto":
        text += "".join("char %s(char x);\n" % f for f in FN[1:])
        text += fdef("main") + fdef("f1") + fdef("f2") + fdef("f3")
    else:
        text += fdef("f3") + fdef("f2") + fdef("f1")
        if attr == "unused":
            text += "char f4(char x) { return f3(x); }\n"
            src["f4"] = ["f3"]
        if attr in ("isr", "isr_inl3", "isr2"):
            text += "void interrupt isr() { a = f3(2); }\n"
            src["isr"] = ["f3"]
        if attr == "isr2":
            text += "char hb(char x) { return x; }\nvoid interrupt nmi() { b = hb(1); }\n"
            src["hb"] = []
            src["nmi"] = ["hb"]
        text += fdef("main")
    roots = ["main"] + (["isr"] if attr in ("isr", "isr_inl3", "isr2") else []) + (["nmi"] if attr == "isr2" else [])
    return text, src, roots


def c12(tier):
    t0 = time.time()
    pid = "C12"
    verdict = common.Verdict(pid)
    d = common.workdir("gen_c12")
    cfg = os.path.join(d, "GenGraph.cfg")
    possets = ['{"stmt", "ifcond", "arg", "loopbody", "ret"}', '{"binop_rhs", "cmp_rhs", "stmt", "assign"}']
    possets.append('{"ternary", "switchsel", "forupdate", "whilecond"}')
    if tier == "thorough":
        possets.append('{"switchcase", "index", "dowhilecond", "argofarg", "stmt"}')
    seen, cases = set(), []
    res = None
    for pi, pos in enumerate(possets):
        open(os.path.join(d, "MCGenGraph.tla"), "w").write("---- MODULE MCGenGraph ----\nEXTENDS GenGraph\nMCPos == %s\n====\n" % pos)
        open(cfg, "w").write("CONSTANT Positions <- MCPos\nINIT Init\nNEXT Next\nINVARIANT Emit\nCHECK_DEADLOCK FALSE\n")
        r = common.run_tlc("MCGenGraph", cfg=cfg, name="gen_c12_%d" % pi, tags={"CASE"}, workers=8, heap="8g", timeout=1500, module_dir=d)
        common.require_ok(r, "GenGraph")
        for (_, o) in r.lines:
            k = json.dumps(o, sort_keys=True)
            if k not in seen:
                seen.add(k)
                cases.append(o)
        if res is None:
            res = r
        else:
            res.distinct += r.distinct
            res.generated += r.generated
    cases.sort(key=lambda o: json.dumps(o, sort_keys=True))
    total = len(cases)
    rnd = random.Random(common.seed())
    n = 8000 if tier == "quick" else 60000
    if len(cases) > n:
        cases = rnd.sample(cases, n)
    hc = []
    for i, c in enumerate(cases):
        c["_src"], c["_calls"], c["_roots"] = render_graph(c)
        hc.append(dict(id=i, src=c["_src"], variants=[dict(name="O1", args=["-O1"])]))
    obs = common.run_harness("compile", hc, "c12")
    tc = []
    accepted = rejected = 0
    reasons = {}
    for i, (c, ob) in enumerate(zip(cases, obs)):
        o = ob[0] if ob else {"status": "missing"}
        if o.get("status") == "err":
            rejected += 1
            reasons[o["err"].get("msg")] = reasons.get(o["err"].get("msg"), 0) + 1
            continue
        if o.get("status") != "ok":
            verdict.violation("compiler %s on call-graph program" % o.get("status"), dict(property=pid, source=c["_src"], outcome=o.get("status"), detail=o.get("panic")))
            continue
        accepted += 1
        jsr = {}
        for f in o["funcs"]:
            if f.get("lines"):
                t = [l["op"] for l in f["lines"] if l["k"] == "i" and l["mn"] == "JSR"]
                if t:
                    jsr[f["name"]] = t
        tc.append(dict(id=i, src={k: v for k, v in c["_calls"].items()}, roots=c["_roots"], tree=o["tree"], inuse=o["inuse"], jsr=jsr))
    if (accepted < 100) and not verdict.violations:      # (a run that found violations reports them)
        raise common.ToolError("vacuous: %d accepted (%s)" % (accepted, reasons))
    d2 = common.workdir("cg_c12")
    p = os.path.join(d2, "cases.ndjson")
    with open(p, "w") as f:
        for t in tc:
            f.write(json.dumps(t) + "\n")
    cfg2 = os.path.join(d2, "CallGraph.cfg")
    open(cfg2, "w").write("INIT Init\nNEXT Next\nINVARIANT Report\nCHECK_DEADLOCK FALSE\n")
    res2 = common.run_tlc("CallGraph", cfg=cfg2, env={"CASES": p}, name="cg_c12", tags={"CG"}, workers=8, heap="6g")
    common.require_ok(res2, "CallGraph")
    byid = {t["id"]: t for t in tc}
    for (_, o) in res2.lines:
        c = cases[o["id"]]
        t = byid[o["id"]]
        verdict.violation("%s broken for attr=%s sites=%s" % (",".join(o["broken"]), c["attr"], [(s["from"], s["to"], s["pos"]) for s in c["sites"] if s["pos"] != "none"]),
                          dict(property=pid, broken=o["broken"], source=c["_src"], source_calls=c["_calls"], roots=c["_roots"], published_tree=t["tree"], published_in_use=t["inuse"],
                               reachable_through_tree=o["reach"], emitted_jsr=t["jsr"]))
    nonempty = sum(1 for t in tc if any(t["src"].values()))
    cov = dict(states=res.distinct + res2.distinct, transitions=res.generated + res2.generated, traces_validated_against_impl=len(tc),
               samples=[dict(source=cases[t["id"]]["_src"], source_calls=t["src"], tree=t["tree"], inuse=t["inuse"]) for t in tc[10:12]],
               graphs_generated=total, graphs_replayed=len(cases), accepted=accepted, rejected_by_compiler=rejected, reject_reasons=reasons, graphs_with_calls=nonempty,
               exhaustive=(len(cases) == total),
               explanation="GenGraph.tla enumerates acyclic call graphs over main,f1,f2,f3 with each call in a syntactic position (statement, condition, argument, loop "
                           "body, return, ...) and attributes (inline subsets, interrupt handler, unused function, prototypes first); CallGraph.tla checks the published "
                           "tree and in-use set of the real compiler against the source calls and the emitted JSRs.")
    common.write_evidence(pid, tier, "model_checking", cov, time.time() - t0, len(verdict.violations), ["one call site per (caller, callee) pair; acyclic graphs"])
    return verdict.finish()


REGISTRY["C12"] = c12


# ---------------------------------------------------------------------------------------------
# C16: compilation is total
# ---------------------------------------------------------------------------------------------
_CTOK = re.compile(r'"(?:[^"\\\n]|\\.)*"|\'(?:[^\'\\\n]|\\.)*\'|[A-Za-z_][A-Za-z0-9_]*|0x[0-9a-fA-F]+|\d+|<<=|>>=|\+\+|--|&&|\|\||<<|>>|<=|>=|==|!=|\+=|-=|\*=|/=|&=|\|=|\^=|#[a-z]+|\S')
MENU = ["if", "else", "while", "for", "do", "switch", "case", "default", "break", "continue", "return", "goto", "inline", "interrupt", "const", "signed", "unsigned",
        "char", "short", "int", "void", "sizeof", "asm", "load", "store", "strobe", "csleep", "bank1", "superchip", "aligned", "X", "Y",
        "+", "-", "*", "/", "&", "|", "^", "~", "!", "<", ">", "<=", ">=", "==", "!=", "&&", "||", "<<", ">>", "=", "+=", "-=", "*=", "/=", "<<=", ">>=", "&=", "|=", "^=",
        "++", "--", "?", ":", ",", ";", "(", ")", "[", "]", "{", "}", "0", "1", "255", "256", "65535", "65536", "4294967296", "99999999999999999999", "0x", "0xFFFFFFFFF", "08", "1.5",
        "'a'", "''", "'ab'", "'", '"', '"abc"', '"unterminated', "\\", "#", "#if", "#if 1", "#else", "#endif", "#elif 1", "#define A A\nA", "#define F(x) F(x)\nF(1)", "#include", '#include "nofile.h"', "#undef", "#error x", "#ifdef",
        "undeclared_name", "main", "f()", "main()", "(" * 300, "((((((((((", "/*", "*/", "//", "@", "@0@", "$", "`", "\x00", "\xff", "\t", "\r", "é", "=== ASSEMBLER BEGIN ==="]
# variants of the inputs behind each repaired crash or hang (one error path each; a repair that covers one spelling only shows here)
REPAIRED_PATHS = [
    # integer literals beyond 32 bits, in every place a literal may stand
    "void main() { X = 4294967296; }", "void main() { X = 0xFFFFFFFFF; }", "void main() { X = 077777777777777; }", "void main() { csleep(99999999999); }",
    "unsigned char a; void main() { switch (a) { case 4294967296: a = 1; } }", "char t[4294967296]; void main() { }", "const char t[2] = {4294967296, 1}; void main() { }",
    "char *p; void main() { p = 0; X = p[99999999999]; }", "const char *q = t + 99999999999; const char t[2] = {1, 2}; void main() { }",
    # the value of a void function, into every kind of destination
    "unsigned char a; void w(char x) { a = x; } void main() { X = w(3); }", "unsigned char a; void w(char x) { a = x; } void main() { Y = w(3); }",
    "unsigned char a; void w(char x) { a = x; } void main() { a = w(3); }", "unsigned char a; short s; void w() { a = 1; } void main() { s = w(); }",
    "unsigned char a, t[4]; void w() { a = 1; } void main() { t[X] = w(); t[1] = w(); }", "unsigned char a; char *p; void w() { a = 1; } void main() { *p = w(); p[Y] = w(); }",
    "unsigned char a; void w() { a = 1; } char g() { return w(); } void main() { a = g(); }", "unsigned char a; void w() { a = 1; } void main() { a = main(); }",
    "unsigned char a; void w() { a = 1; } void main() { a += w(); a = w() + 1; if (w()) a = 2; }",
    # the preprocessor's placeholder for string literals written in the source
    "void main() { X = @0@; }", "char *s; void main() { s = \"x\"; s = @1@; }", "char *s; void main() { s = \"x\"; s = @0@; }", "const char s[] = @-1@; void main() { }",
    "const char s[] = @99999999999999999999@; void main() { }", "const char *t[2] = {\"a\", @1@}; void main() { }", "void main() { asm(@0@); }", "void main() { asm(\"nop\"); asm(@1@); }",
    # malformed parameter lists of function-like macros
    "#define pp(x, ) foo\nchar i; void main() { }", "#define pp(x,x) x\nchar i; void main() { i = pp(1,2); }", "#define pp(x, x) x\nchar i; void main() { i = pp(1,2); }",
    "#define pp(x ,x) x\nchar i; void main() { i = pp(1,2); }", "#define pp(x , y) x+y\nchar i; void main() { i = pp(1,2); }", "#define pp(,x) x\nchar i; void main() { }",
    "#define pp(x,,y) x\nchar i; void main() { }", "#define pp(x, y, x) x\nchar i; void main() { i = pp(1,2,3); }",
    # macros that refer to themselves, directly, with growth, through each other
    "#define A A\nA char i; void main() { }", "#define F(x) F(x)\nchar i; void main() { i = F(1); }", "#define A (A A)\nchar i; void main() { i = A; }",
    "#define A B\n#define B A\nchar i; void main() { i = A; }", "#define F(x) G(x)\n#define G(x) F(x)\nchar i; void main() { i = F(1); }", "#define A A+1\n#if A\nchar i;\n#endif\nvoid main() { }",
    # a function name or a register where a variable is required
    "void f(); void main() { (f); }", "unsigned char a; void main() { a = sizeof X; a = sizeof(Y); }", "unsigned char a; void main() { a = *X; }", "char *p; void main() { p = &X; }",
    "void f(); unsigned char a; void main() { a = f; }", "void f(); void main() { f++; --f; }", "void f(); unsigned char a; void main() { a = *f; a = sizeof(f); }", "void f(); char *p; void main() { p = &f; }",
    "void f(); unsigned char a; void main() { a = a + f; if (f) a = 1; }", "void f(); unsigned char a[4]; void main() { a[f] = 1; X = a[f]; }", "void f(); void main() { strobe(f); strobe(X); }",
    "void f(); void main() { X = (f >> 8) + 1; }", "void f(); void main() { X = (f >> 8) - 1; }", "void main() { X = (X >> 8) + 1; Y = (Y >> 8) - 1; }", "void f(); void main() { f = 1; f += 2; f <<= 1; }",
    "void f(); void g(char x); void main() { g(f); g(X); }", "unsigned char a[4]; char f(char *s) { return s[0]; } void main() { X = a[\"s\"]; X = a[f(\"s\")]; }",
    # infix ! and ~ in constant expressions
    "const char tab[2] = {3 * 5 ! 4, 1}; void main() { }", "const char tab[2] = {3 ~ 4, 1}; void main() { }", "char t[2 ! 1]; void main() { }",
]
OWN_SEEDS = REPAIRED_PATHS + [
    "unsigned char a, b; void h() { a++; } char k() { return 7; } void main() { a = k(); h(); X = a; }",
    "unsigned char a; void w(char x) { a = x; } void main() { Y = w(3); }",
    "void f(); void main() { f(); }",
    "char *p; unsigned char a[4]; void main() { p = a; a[X] = p[Y]; csleep(4); }",
    "const char t[3] = {1, 2, 3}; short s; void main() { s = t[X] << 8; switch (s) { case 1: s++; break; default: s--; } }",
    "#define N 3\n#if N\nchar v[N];\n#endif\nvoid main() { for (X = 0; X < N; X++) v[X] = 0; }",
    "unsigned char a; void main() { do { a--; if (a == 3) continue; } while (a); goto l; l: a = 1 ? 2 : 3; }",
    "inline char f(char x) { return x + 1; } unsigned char a; void main() { a = f(f(2)); strobe(a); }",
    "unsigned char a, b; void main() { switch (a) { case 1: continue; default: b = 1; } }",
    "unsigned char a, b; void f() { switch (a) { case 1: b++; break; case 2: if (b) continue; } }\nvoid main() { f(); do { switch (b) { case 0: continue; } a++; } while (a); }",
    "unsigned char a; void main() { { continue; } while (a) { a--; } break; }",
    "unsigned char a; void main() { csleep(2); csleep(3); csleep(5); a = 1; csleep(9); csleep(10); csleep(7); }",
    "short a[-1]; char b[0]; bank3 char c; aligned(256) char d[4]; void main() { b[0] = a[1]; }",
    "unsigned char a; void main() { switch (a) { } switch (a) {\n#ifdef NOPE\ncase 1: a = 2;\n#endif\n} while (a) { } for (;;) { break; } do { } while (0); }",
    "unsigned char a; void main() { csleep(0); a = 1; }",
    "unsigned char a; void main() { csleep(1); a = 1; }",
    "unsigned char a; void main() { csleep(-2); csleep(11); csleep(100); csleep(65536); a = 1; }",
    "unsigned char a; void main() { if (a) { } else { } { } ; ; }",
    "void main() { X = 1; }\n",
    "char a; void main() { do { switch (X) { case 1: if (Y) continue; a = 2; } X++; } while (X != 9); }",
    "char a; void main() { do { if (Y) continue; X++; } while (X != 9); do { switch (X) { case 1: if (Y) break; default: if (a) continue; a = 2; } X++; } while (X); }",
    "unsigned char a; void main() { a = 1; " + "a++; " * 48 + 'asm("; \u00e9\u00e9\u00e9\u00e9\u00e9\u00e9\u00e9\u00e9 end", 0); a--; }\n',
    "unsigned char elsex, returny; void main() { if (X) Y = 1; elsex = 2; returny = 3; do{ X--; }while(X); }\n",
]


def repo_test_inputs():
    """the C sources the repository's own tests compile (read from /repo/src/lib.rs at run time)"""
    try:
        txt = open(os.path.join(common.REPO, "src", "lib.rs")).read()
    except OSError:
        return []
    out = []
    for m in re.finditer(r'let input = "((?:[^"\\]|\\.)*)";', txt, re.S):
        s = m.group(1)
        s = s.replace("\\n", "\n").replace('\\"', '"').replace("\\t", "\t").replace("\\\\", "\\")
        s = re.sub(r"\\\n\s*", "", s)
        out.append(s)
    return out


def mutate(seedtext, rnd):
    toks = [(m.start(), m.end()) for m in _CTOK.finditer(seedtext)]
    if not toks:
        return seedtext + rnd.choice(MENU), "append"
    i = rnd.randrange(len(toks))
    a, b = toks[i]
    kind = rnd.choice(["delete", "duplicate", "swap", "replace", "replace", "insert", "truncate"])
    if kind == "delete":
        return seedtext[:a] + seedtext[b:], kind
    if kind == "duplicate":
        return seedtext[:b] + " " + seedtext[a:b] + seedtext[b:], kind
    if kind == "swap" and i + 1 < len(toks):
        c, d = toks[i + 1]
        return seedtext[:a] + seedtext[c:d] + seedtext[b:c] + seedtext[a:b] + seedtext[d:], kind
    if kind == "insert":
        return seedtext[:a] + rnd.choice(MENU) + " " + seedtext[a:], kind
    if kind == "truncate":
        return seedtext[:b], kind
    return seedtext[:a] + rnd.choice(MENU) + seedtext[b:], "replace"


def macro_cycle(src, args):
    """does some macro (from #define lines or -D options) mention itself, directly or through other macros?"""
    defs = {}
    src = src.replace("\\\r\n", "").replace("\\\n", "")          # splices are removed before directives are read
    for m in re.finditer(r"^[ \t]*#[ \t]*define[ \t]+([A-Za-z_]\w*)(.*)$", src, re.M):
        # everything after the name counts as body (a malformed parameter list is read as text by the preprocessor)
        defs.setdefault(m.group(1), "")
        defs[m.group(1)] += " " + m.group(2)
    for a in args:
        if a.startswith("-D") and len(a) > 2:
            n, _, v = a[2:].partition("=")
            defs[n] = defs.get(n, "") + " " + v
    uses = {n: set(w for w in re.findall(r"[A-Za-z_]\w*", body) if w in defs) for n, body in defs.items()}
    for n in defs:
        seen, todo = set(), list(uses[n])
        while todo:
            x = todo.pop()
            if x == n:
                return True
            if x not in seen:
                seen.add(x)
                todo += list(uses[x])
    return False


def c16(tier):
    t0 = time.time()
    pid = "C16"
    verdict = common.Verdict(pid)
    seeds = repo_test_inputs() + OWN_SEEDS
    if len(seeds) < 20:
        raise common.ToolError("could not read the repository's test inputs")
    rnd = random.Random(common.seed())
    n = 24000 if tier == "quick" else 400000
    cases = []
    for s in seeds:        # the seeds themselves, at both levels
        cases.append((s, "seed"))
    # every menu entry replacing / inserted at a few positions of a few seeds (systematic part)
    for mi, mtok in enumerate(MENU):
        for k in range(4):
            s = seeds[(mi * 7 + k * 13) % len(seeds)]
            toks = [(m.start(), m.end()) for m in _CTOK.finditer(s)]
            a, b = toks[(mi + 3 * k) % len(toks)]
            cases.append((s[:a] + mtok + s[b:], "menu-replace"))
            cases.append((s[:a] + mtok + " " + s[a:], "menu-insert"))
    while len(cases) < n:
        s = rnd.choice(seeds)
        m, kind = mutate(s, rnd)
        if rnd.random() < 0.15:
            m, k2 = mutate(m, rnd)
            kind += "+" + k2
        cases.append((m, kind))
    hc = []
    optsets = [["-O1"], ["-O0"], ["-O1", "-DA=1"], ["-O1", "--insert-code"], ["-O2", "-Wall"]]
    for i, (src, kind) in enumerate(cases):
        hc.append(dict(id=i, src=src, variants=[dict(name="v", args=optsets[i % len(optsets)] if i >= len(seeds) else ["-O1"])]))
    # valid programs of the refinement corpus (every family of GenProg.tla): the compiler must not crash on them either
    from . import checks_refine, vocab, render
    gp, _ = checks_refine.sample_programs(tier, name="c16g", scale=0.5)
    for p in gp:
        fn = sorted(render.calls_in(p["body"]))
        src = vocab.source(p["body"], fn)
        cases.append((src, "corpus-" + p["fam"]))
        hc.append(dict(id=len(hc), src=src, variants=[dict(name="v", args=["-O1"])]))
    # the seeds once more with the listing option (with and without a final newline)
    for s in seeds:
        for t in (s.rstrip("\n") + "\n", s.rstrip("\n")):
            cases.append((t, "seed-listing"))
            hc.append(dict(id=len(hc), src=t, variants=[dict(name="v", args=["-O1", "--insert-code"])]))
    # "every option set": unusual but accepted command lines on a few seeds (the rotation above is left as it is)
    odd = [["-O1", "-D", ""], ["-O1", "-DA(=1"], ["-O1", "-DA+B=2"], ["-O1", "-D", "A B=3"], ["-O1", "-DX"], ["-O1", "-Dmain=foo"], ["-O1", "-D1=2"], ["-O1", "-D", "=5"],
           ["-O3", "-I", "/nonexistent/dir"], ["-O1", "-D[a=1"], ["-O1", "-D\\=1"], ["-O1", "-Dvoid=char"], ["-O0", "-DA=A"], ["-O1", "-DA=B", "-DB=A"]]
    for k, o in enumerate(odd):
        for s in (seeds[0], seeds[(7 * k + 3) % len(seeds)], "#define Q 1\nunsigned char A, B; void main() { A = B + Q; }\n"):
            cases.append((s, "odd-options"))
            hc.append(dict(id=len(hc), src=s, variants=[dict(name="v", args=o)]))
    for (src, files) in (('#include "self.h"\nvoid main() { }\n', {"self.h": '#include "self.h"\nchar sx;\n'}),
                         ('#include "pa.h"\nvoid main() { }\n', {"pa.h": '#include "pb.h"\n', "pb.h": '#include "pa.h"\n'})):
        cases.append((src, "include-cycle"))
        hc.append(dict(id=len(hc), src=src, files=files, variants=[dict(name="v", args=["-O1"])]))
    obs = common.run_harness("compile", hc, "c16", deadline_ms=2500)
    recs = []
    for i, ((src, kind), ob) in enumerate(zip(cases, obs)):
        o = ob[0] if ob else {"status": "abort"}
        nlines = src.count("\n") + 1
        e = o.get("err", {}) if o.get("status") == "err" else {}
        files = hc[i].get("files") or {}
        if e.get("file") in files:
            nlines = files[e["file"]].count("\n") + 1
        recs.append(dict(n=i, status=o.get("status", "abort"), kind=e.get("kind", ""), line=e.get("line") or 0, nlines=nlines,
                         fileknown=(e.get("file") == "stdin" or e.get("file") in files) if e else False))
    d = common.workdir("out_c16")
    p = os.path.join(d, "obs.ndjson")
    with open(p, "w") as f:
        for r in recs:
            f.write(json.dumps(r) + "\n")
    cfg = os.path.join(d, "Outcome.cfg")
    open(cfg, "w").write("INIT Init\nNEXT Next\nINVARIANT Report\nCHECK_DEADLOCK FALSE\n")
    res = common.run_tlc("Outcome", cfg=cfg, env={"OBS": p}, name="out_c16", tags={"BAD"}, workers=1, heap="4g")
    common.require_ok(res, "Outcome")
    sites = {}
    for fd in verdict.findings:
        for k in fd.get("cases", []):
            sites[k] = fd["id"]
    stat = {}
    for r in recs:
        stat[r["status"]] = stat.get(r["status"], 0) + 1
    nbad = 0
    reported_sites = set()
    for (_, b) in res.lines:
        i = b["n"]
        src, kind = cases[i]
        o = obs[i][0] if obs[i] else {"status": "abort"}
        st = o.get("status", "abort")
        if st == "panic":
            # identified by source file and panic message (line numbers move with unrelated edits)
            pm = o.get("panic", "")
            parts = pm.split(" @ ")
            msg = re.sub(r"\(\d+, \d+\)", "", parts[0])
            msg = re.sub(r"\d+", "N", msg)[:48].strip()
            callers = parts[2].split(" < ")[:2] if len(parts) > 2 else ["?"]
            callers = [re.sub(r"<impl [^>]*>::", "", c).split("::")[-1] for c in callers]
            key = "panic:%s:%s" % (msg, "<".join(callers))
        elif st == "err":
            e = o["err"]
            key = "badloc:%s" % e.get("msg", "")[:40]
        elif st == "timeout":
            key = "timeout:macro-cycle" if macro_cycle(src, hc[i]["variants"][0]["args"]) else "timeout"
        else:
            key = st
        hit = [fid for k, fid in sites.items() if key == k or (k.endswith("*") and key.startswith(k[:-1]))]
        if hit:
            verdict.attribute(hit[0])
            continue
        nbad += 1
        if key in reported_sites and nbad > 200:
            continue
        reported_sites.add(key)
        verdict.violation("%s [%s] on a %s mutant" % (st, key, kind), dict(property=pid, outcome=st, site=key, detail=o.get("panic") or o.get("err"), source=src, args=hc[i]["variants"][0]["args"], mutation=kind))
    distinct = len(set(src for src, _ in cases))
    cov = dict(evaluations=len(cases), distinct_nontrivial=distinct, rule="seed = a C source the repository's tests compile (%d read from src/lib.rs) or one of %d own programs; "
               "each case applies one (15%%: two) token-level mutation: delete, duplicate, swap, replace from a %d-entry menu, insert, truncate; distinct = different source texts"
               % (len(seeds) - len(OWN_SEEDS), len(OWN_SEEDS), len(MENU)),
               samples=[dict(source=cases[i][0], mutation=cases[i][1]) for i in (len(seeds) + 5, len(seeds) + 400, len(cases) - 1)],
               outcomes=stat, outcomes_rejected_by_Outcome_spec=len(res.lines), attributed_to_known_findings=verdict.known, states=res.distinct,
               explanation="every recorded outcome is validated by TLC against Outcome.tla (terminal states Ok / located Err only)")
    common.write_evidence(pid, tier, "exploration", cov, time.time() - t0, len(verdict.violations), ["deadline 2.5 s per compilation counts as non-termination", "8 MB stack as for a main thread"])
    return verdict.finish(max_print=12)


REGISTRY["C16"] = c16


# ---------------------------------------------------------------------------------------------
# C05: output is a deterministic function of source and options
# ---------------------------------------------------------------------------------------------
def det_programs(tier):
    progs = []
    lits = ['"one"', '"two"', '"three"', '"four"', '"five"']
    for k in range(0, 6 if tier == "thorough" else 5):
        args = ", ".join("char *p%d" % i for i in range(k))
        call = ", ".join(lits[:k])
        progs.append("void pr(%s) { }\nvoid main() { pr(%s); }\n" % (args, call))
        if k:
            progs.append("const char *t0[] = {%s};\nvoid main() { }\n" % call)
            progs.append("char *q; void pr(char *s) { }\nvoid main() { pr(%s); }\n" % lits[0] + "".join("void g%d() { pr(%s); pr(%s); }\n" % (i, lits[i], lits[(i + 1) % 5]) for i in range(k)))
            progs.append("char *q; void main() { %s }\n" % " ".join("q = %s;" % l for l in lits[:k]))
            progs.append("char *q; unsigned char a; void pr(char *s, char *t) { }\nvoid main() { if (a) pr(%s, %s); else pr(%s, %s); }\n" % (lits[0], lits[k - 1], lits[k - 1], lits[0]))
        if k >= 2:
            # several literals in the initialiser of a local variable, in a condition, in a return expression
            progs.append("char pk(%s) { return p0[0]; }\nvoid main() { char v = pk(%s); X = v; }\n" % (args, call))
            progs.append("char pk(%s) { return p0[0]; }\nunsigned char a; void main() { if (pk(%s)) a = 1; while (pk(%s)) a++; }\n" % (args, call, call))
            progs.append("char pk(%s) { return p0[0]; }\nchar g() { return pk(%s); }\nvoid main() { X = g(); Y = pk(%s) + 1; }\n" % (args, call, call))
    for n in (3, 12, 40):
        decl = "".join("unsigned char v%d;\n" % i for i in range(n))
        fns = "".join("void f%d() { v%d++; }\n" % (i, i) for i in range(n))
        body = " ".join("f%d();" % i for i in range(n))
        progs.append(decl + fns + "void main() { %s }\n" % body)
        progs.append(decl + "".join("inline void f%d() { v%d++; }\n" % (i, i) for i in range(min(n, 8))) + "void main() { %s }\n" % " ".join("f%d();" % i for i in range(min(n, 8))))
    progs.append("unsigned char a; void interrupt nmi() { a++; }\nvoid interrupt irq() { a--; }\nvoid h() { a = 1; }\nvoid main() { h(); }\n")
    progs.append("unsigned char a, b; char f(char x) { char l1; char l2; l1 = x; l2 = l1 + 1; return l2; }\nvoid main() { char m1; m1 = f(a); { char m1; m1 = 2; b = m1; } a = m1; }\n")
    progs.append('#define S "macro string"\nchar *q; void pr(char *s) { }\nvoid main() { pr(S); pr("lit"); pr(S); }\n')
    progs.append("void fn2(); void fn1() {fn2();}; void fn2() {}; void fn3() {}; void fn4() {}; void main() { fn1(); fn4();}\n")
    progs.append("char f3(char x); char f2(char x); char f1(char x);\nunsigned char a;\nvoid main() { a = f1(1); }\nchar f1(char x) { return f2(x); }\nchar f2(char x) { return f3(x); }\nchar f3(char x) { return x; }\nchar f4(char x) { return x; }\n")
    progs.append("void f1(); void f1(); void f2(); void f3(); void f1() {} void f2() {} void f3() {} void main() { f1(); f2(); f3(); }\n")
    progs.append("char g1(char x); char g1(char x); char g2(char y); unsigned char a;\nchar g2(char y) { return y; }\nchar g3(char z) { return z; }\nchar g1(char x) { return g2(x); }\nvoid main() { a = g1(1) + g3(2); }\n")
    progs.append("unsigned char a; void main() { a = 300; }\n")                      # a warning is printed
    progs.append("char *p; unsigned char a; void main() { a = *p; }\n")
    # several diagnostics compete: the one reported must not depend on map iteration order
    progs.append("void fv() { }\nvoid f1() { X = fv() + 1; }\nvoid f2() { Y = fv() + 1; }\nvoid f3() { if (fv()) X = 1; }\nvoid f4() { X = fv() + 2; }\nvoid main() { f1(); f2(); f3(); f4(); }\n")
    progs.append("unsigned char a;\nvoid interrupt i1(char x) { a = x; }\nvoid interrupt i2(char y) { a = y; }\nchar interrupt i3() { return 1; }\nchar interrupt i4(char z) { return z; }\nvoid main() { }\n")
    progs.append("unsigned char a;\nvoid u1() { nofn1(); }\nvoid u2() { nofn2(); }\nvoid u3() { a = nov3; }\nvoid main() { u1(); u2(); u3(); }\n")
    # the same macro name with different definitions in different compilations of one process
    progs.append("#define MF(x) (x + 1)\nunsigned char a; void main() { a = MF(2); X = MF(a); }\n")
    progs.append("#define MF(y) (y + 2)\nunsigned char a; void main() { a = MF(2); X = MF(a); }\n")
    progs.append("#define MF(x, y) (x - y)\n#define MK 3\nunsigned char a; void main() { a = MF(9, MK); }\n#undef MF\n#define MF(p, q) (q - p)\nvoid g() { a = MF(1, MK); }\n")
    progs.append("#define MK 4\nunsigned char a; void main() { a = MK; }\n")
    # the same text with the same header name resolved in different include directories: "regardless of what was compiled before"
    inc = '#include "cfg.h"\nunsigned char a; void main() { a = K; }\n'
    progs.append(dict(src=inc, files={"cfg.h": "#define K 10\n"}))
    progs.append(dict(src=inc, files={"cfg.h": "#define K 20\n"}))
    progs.append(dict(src=inc, files={"cfg.h": "#define K 30\nunsigned char extra;\n"}))
    return progs


def c05(tier):
    t0 = time.time()
    pid = "C05"
    verdict = common.Verdict(pid)
    progs = det_programs(tier)
    optsets = [["-O1"], ["-O0"], ["-O1", "--insert-code"], ["-O1", "-W", "all"]]
    rounds = 8 if tier == "quick" else 32
    hist = []
    for r in range(rounds):
        cases = []
        order = list(range(len(progs)))
        random.Random(common.seed() * 1000 + r).shuffle(order)
        # each program twice within a process, interleaved with the others
        for rep in range(2):
            for pi in order:
                pg = progs[pi] if isinstance(progs[pi], dict) else dict(src=progs[pi])
                cases.append(dict(pg, id="%d.%d.%d" % (r, rep, pi), cfg=dict(text=True), variants=[dict(name=" ".join(o), args=o) for o in optsets]))
        # deadline 0: the harness compiles in its main thread, one compilation after the other, as a build tool would
        obs = common.run_harness("compile", cases, "c05", nproc=2, deadline_ms=0, retry_timeouts=False)
        for c, ob in zip(cases, obs):
            pi = int(c["id"].split(".")[2])
            for o in ob:
                core = {k: o.get(k) for k in ("status", "err", "vars", "funcs", "tree", "inuse", "panic")}
                dg = hashlib.sha1(json.dumps(core, sort_keys=True).encode()).hexdigest()
                hist.append(dict(src=pi, opts=o.get("variant", ""), digest=dg, proc="%s" % c["id"], _core=core))
    d = common.workdir("det_c05")
    p = os.path.join(d, "hist.ndjson")
    with open(p, "w") as f:
        for h in hist:
            f.write(json.dumps({k: v for k, v in h.items() if not k.startswith("_")}) + "\n")
    cfg = os.path.join(d, "Determinism.cfg")
    open(cfg, "w").write("INIT Init\nNEXT Next\nINVARIANT Report\nCHECK_DEADLOCK FALSE\n")
    res = common.run_tlc("Determinism", cfg=cfg, env={"HIST": p}, name="det_c05", tags={"NONDET"}, workers=1, heap="4g")
    common.require_ok(res, "Determinism")
    first = {}
    for h in hist:
        first.setdefault((h["src"], h["opts"]), h)
    badprogs = {}
    for (_, b) in res.lines:
        badprogs.setdefault(b["src"], []).append(b)
    kf = {}
    for fd in verdict.findings:
        for k in fd.get("cases", []):
            kf[k] = fd["id"]
    for pi, bs in sorted(badprogs.items()):
        b = bs[0]
        h = hist[b["n"] - 1]
        f0 = first[(h["src"], h["opts"])]
        diffkeys = [k for k in h["_core"] if h["_core"][k] != f0["_core"][k]]
        key = "prog:%d" % pi
        if key in kf:
            verdict.attribute(kf[key])
            continue
        verdict.violation("program %d compiled with %s gives different results (%s differ) in %d of its compilations" % (pi, b["opts"], ",".join(diffkeys), len(bs)),
                          dict(property=pid, source=progs[pi], options=b["opts"], differing_parts=diffkeys, first={k: f0["_core"][k] for k in diffkeys}, other={k: h["_core"][k] for k in diffkeys}))
    cov = dict(evaluations=len(hist), distinct_nontrivial=len(first), rule="%d programs (k string literals in one call / initialiser list / function, 3-40 variables and functions, "
               "inline functions, interrupt handlers, locals with shadowing, macro strings, a program that draws a warning) x %d option sets; each compiled twice per process, "
               "interleaved with the others in shuffled order, in %d rounds of fresh processes; distinct = (program, options) pairs" % (len(progs), len(optsets), rounds),
               samples=[dict(source=progs[i]) for i in (1, 7, len(progs) - 13)], compilations=len(hist), fresh_processes=rounds * 2, states=res.distinct,
               attributed_to_known_findings=verdict.known, explanation="the recorded compile history is validated by TLC against Determinism.tla")
    common.write_evidence(pid, tier, "exploration", cov, time.time() - t0, len(verdict.violations),
                          ["a hash-order leak between 2 orders escapes %d independent compilations with probability 2^-%d" % (rounds * 4, rounds * 4 - 1), "diagnostics printed to stdout are not captured"])
    return verdict.finish()


REGISTRY["C05"] = c05
