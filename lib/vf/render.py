"""AST -> C text (trusted renderer).  Expressions are printed fully parenthesised, so that the text
means exactly the tree, independently of precedence (precedence itself is the subject of C10/C15
families, which print token strings explicitly via the 'raw' node)."""


def expr(e):
    k = e["k"]
    if k == "num":
        return str(e["n"])
    if k == "var":
        if e["name"].startswith("PORT"):
            return "(*%s)" % e["name"]       # hardware register behind a constant pointer
        return e.get("cname", e["name"])
    if k == "aname":
        return e["name"]
    if k == "idx":
        return "%s[%s]" % (e.get("cname", e["arr"]), expr(e["i"]))
    if k == "deref":
        return "(*%s)" % e["p"]
    if k == "un":
        if e.get("flat"):
            return "%s%s" % (e["op"], expr(e["e"]))
        return "(%s%s)" % (e["op"], expr(e["e"]))
    if k == "bin":
        if e.get("flat"):       # printed without parentheses: the text relies on C precedence (family FP)
            return "%s %s %s" % (expr(e["l"]), e["op"], expr(e["r"]))
        return "(%s %s %s)" % (expr(e["l"]), e["op"], expr(e["r"]))
    if k == "asg":
        op = e["op"] if e["op"] == "=" else e["op"] + "="
        return "(%s %s %s)" % (expr(e["lhs"]), op, expr(e["e"]))
    if k == "inc":
        s = "++" if e["d"] == 1 else "--"
        return "(%s%s)" % (s, expr(e["lhs"])) if e["pre"] else "(%s%s)" % (expr(e["lhs"]), s)
    if k == "cond":
        return "(%s ? %s : %s)" % (expr(e["c"]), expr(e["t"]), expr(e["e"]))
    if k == "comma":
        return "(%s, %s)" % (expr(e["l"]), expr(e["r"]))
    if k == "call":
        return "%s(%s)" % (e["f"], ", ".join(top(a) for a in e["args"]))
    if k == "raw":
        return e["text"]
    if k == "none":
        return ""
    raise ValueError("expr kind " + k)


def top(e):
    """expression without the outermost parentheses"""
    s = expr(e)
    if s.startswith("(") and s.endswith(")") and _balanced(s[1:-1]):
        return s[1:-1]
    return s


def _balanced(s):
    d = 0
    for ch in s:
        if ch == "(":
            d += 1
        elif ch == ")":
            d -= 1
            if d < 0:
                return False
    return d == 0


def stmts(ss, ind=1):
    return "".join(stmt(s, ind) for s in ss)


def block(ss, ind):
    return "{\n" + stmts(ss, ind + 1) + "  " * ind + "}"


def stmt(s, ind=1):
    p = "  " * ind
    k = s["k"]
    lab = (s["label"] + ": ") if s.get("label") else ""
    p = p + lab
    if k == "expr":
        return p + top(s["e"]) + ";\n"
    if k == "nop":
        return p + ";\n"
    if k == "block":
        return p + block(s["b"], ind) + "\n"
    if k == "decl":
        if s["init"]["k"] != "none":
            return p + "%s %s = %s;\n" % (s["ctype"], s["cname"], top(s["init"]))
        return p + "%s %s;\n" % (s["ctype"], s["cname"])
    if k == "if":
        r = p + "if (%s) %s" % (top(s["c"]), block(s["t"], ind))
        if s["e"] or s.get("force_else"):
            r += " else " + block(s["e"], ind)
        return r + "\n"
    if k == "while":
        return p + "while (%s) %s\n" % (top(s["c"]), block(s["b"], ind))
    if k == "do":
        return p + "do %s while (%s);\n" % (block(s["b"], ind), top(s["c"]))
    if k == "for":
        return p + "for (%s; %s; %s) %s\n" % (top(s["init"]) if s["init"]["k"] != "none" else "",
                                             top(s["c"]) if s["c"]["k"] != "none" else "",
                                             top(s["upd"]) if s["upd"]["k"] != "none" else "", block(s["b"], ind))
    if k == "switch":
        r = p + "switch (%s) {\n" % top(s["e"])
        for c in s["cases"]:
            if c["dflt"]:
                r += "  " * (ind + 1) + "default:\n"
            for v in c["vals"]:
                r += "  " * (ind + 1) + "case %d:\n" % v
            r += stmts(c["body"], ind + 2)
        return r + "  " * ind + "}\n"
    if k == "break":
        return p + "break;\n"
    if k == "continue":
        return p + "continue;\n"
    if k == "return":
        return p + ("return %s;\n" % top(s["e"]) if s["e"]["k"] != "none" else "return;\n")
    if k == "goto":
        return p + "goto %s;\n" % s["target"]
    if k == "load":
        return p + "load(%s);\n" % top(s["e"])
    if k == "store":
        return p + "store(%s);\n" % top(s["e"])
    if k == "strobe":
        return p + "strobe(%s);\n" % s["name"]
    if k == "csleep":
        return p + "csleep(%d);\n" % s["n"]
    if k == "asm":
        if s.get("size") is not None:
            return p + 'asm("%s", %d);\n' % (s["text"], s["size"])
        return p + 'asm("%s");\n' % s["text"]
    if k == "rawstmt":
        return p + s["text"] + "\n"
    raise ValueError("stmt kind " + k)


def names_in(x, acc=None):
    """all variable names referenced in an AST fragment"""
    acc = set() if acc is None else acc
    if isinstance(x, dict):
        k = x.get("k")
        if k == "var":
            acc.add(x["name"])
        elif k == "idx":
            acc.add(x["arr"])
        elif k == "deref":
            acc.add(x["p"])
        elif k == "aname":
            acc.add(x["name"])
        elif k == "strobe":
            acc.add(x["name"])
        for v in x.values():
            names_in(v, acc)
    elif isinstance(x, list):
        for v in x:
            names_in(v, acc)
    return acc


def calls_in(x, acc=None):
    acc = set() if acc is None else acc
    if isinstance(x, dict):
        if x.get("k") == "call":
            acc.add(x["f"])
        for v in x.values():
            calls_in(v, acc)
    elif isinstance(x, list):
        for v in x:
            calls_in(v, acc)
    return acc


# ---------------------------------------------------------------------------------------------------------
# "natural" rendering: the same AST written the way a programmer would - parentheses only where C's
# precedence needs them, single statements without braces, else-if chains.  The canonical rendering above
# (everything parenthesised and braced) and this one mean the same program; C15 compiles both.
# ---------------------------------------------------------------------------------------------------------
_PREC = {"*": 10, "/": 10, "%": 10, "+": 9, "-": 9, "<<": 8, ">>": 8, "<": 7, "<=": 7, ">": 7, ">=": 7, "==": 6, "!=": 6,
         "&": 5, "^": 4, "|": 3, "&&": 2, "||": 1}


def _prec(e):
    k = e["k"]
    if k == "bin":
        return _PREC[e["op"]]
    if k == "cond":
        return 0
    if k == "asg":
        return -1
    if k == "comma":
        return -2
    if k == "un" or (k == "inc" and e["pre"]):
        return 11
    return 12          # primary and postfix expressions


def nexpr(e, minp=-3):
    """expression text; parenthesised iff its precedence is below minp"""
    k = e["k"]
    if k == "bin":
        p = _PREC[e["op"]]
        l, r = nexpr(e["l"], p), nexpr(e["r"], p + 1)
        # keep a blank where two operator characters would fuse (a - -b, a & &b, a + +b)
        s = "%s %s %s" % (l, e["op"], r)
    elif k == "un":
        inner = nexpr(e["e"], 11)
        s = e["op"] + ((" " + inner) if inner[:1] == e["op"][-1:] else inner)
    elif k == "asg":
        op = e["op"] if e["op"] == "=" else e["op"] + "="
        s = "%s %s %s" % (nexpr(e["lhs"], 12), op, nexpr(e["e"], -1))
    elif k == "inc":
        t = "++" if e["d"] == 1 else "--"
        s = (t + nexpr(e["lhs"], 12)) if e["pre"] else (nexpr(e["lhs"], 12) + t)
    elif k == "cond":
        s = "%s ? %s : %s" % (nexpr(e["c"], 1), nexpr(e["t"], -1), nexpr(e["e"], 0))
    elif k == "comma":
        s = "%s, %s" % (nexpr(e["l"], -2), nexpr(e["r"], -1))
    elif k == "idx":
        s = "%s[%s]" % (e.get("cname", e["arr"]), nexpr(e["i"]))
    elif k == "call":
        s = "%s(%s)" % (e["f"], ", ".join(nexpr(a, -1) for a in e["args"]))
    else:
        return expr(e)
    return "(%s)" % s if _prec(e) < minp else s


def _simple(ss):
    return len(ss) == 1 and ss[0]["k"] in ("expr", "break", "continue", "return", "goto", "load", "store", "strobe", "csleep") and not ss[0].get("label")


def nbody(ss, ind, then_of_if_with_else=False):
    """a loop or branch body: one simple statement goes without braces"""
    if _simple(ss) and not then_of_if_with_else:
        return "\n" + nstmt(ss[0], ind + 1).rstrip("\n")
    if _simple(ss):
        return "\n" + nstmt(ss[0], ind + 1).rstrip("\n")
    return "{\n" + "".join(nstmt(s, ind + 1) for s in ss) + "  " * ind + "}"


def nstmt(s, ind=1):
    p = "  " * ind
    k = s["k"]
    lab = (s["label"] + ": ") if s.get("label") else ""
    p = p + lab
    if k == "expr":
        return p + nexpr(s["e"]) + ";\n"
    if k == "decl":
        if s["init"]["k"] != "none":
            return p + "%s %s = %s;\n" % (s["ctype"], s["cname"], nexpr(s["init"], -1))
        return p + "%s %s;\n" % (s["ctype"], s["cname"])
    if k == "block":
        return p + "{\n" + "".join(nstmt(x, ind + 1) for x in s["b"]) + "  " * ind + "}\n"
    if k == "if":
        r = p + "if (%s) %s" % (nexpr(s["c"]), nbody(s["t"], ind))
        if s["e"] or s.get("force_else"):
            # a then-branch that is itself an if without else would capture this else: keep its braces
            if _simple(s["t"]) is False and len(s["t"]) == 1 and s["t"][0]["k"] == "if":
                pass
            if len(s["e"]) == 1 and s["e"][0]["k"] == "if" and not s["e"][0].get("label"):
                r += "\n" + "  " * ind + "else " + nstmt(s["e"][0], ind).lstrip()
                return r
            r += "\n" + "  " * ind + "else " + nbody(s["e"], ind)
        return r + "\n"
    if k == "while":
        return p + "while (%s) %s\n" % (nexpr(s["c"]), nbody(s["b"], ind))
    if k == "do":
        return p + "do %s while (%s);\n" % (nbody(s["b"], ind) if not _simple(s["b"]) else "\n" + nstmt(s["b"][0], ind + 1).rstrip("\n") + "\n" + "  " * ind, nexpr(s["c"]))
    if k == "for":
        return p + "for (%s; %s; %s) %s\n" % (nexpr(s["init"]) if s["init"]["k"] != "none" else "", nexpr(s["c"]) if s["c"]["k"] != "none" else "",
                                             nexpr(s["upd"]) if s["upd"]["k"] != "none" else "", nbody(s["b"], ind))
    if k == "switch":
        r = p + "switch (%s) {\n" % nexpr(s["e"])
        for c in s["cases"]:
            if c["dflt"]:
                r += "  " * (ind + 1) + "default:\n"
            for v in c["vals"]:
                r += "  " * (ind + 1) + "case %d:\n" % v
            r += "".join(nstmt(x, ind + 2) for x in c["body"])
        return r + "  " * ind + "}\n"
    if k == "return":
        return p + ("return %s;\n" % nexpr(s["e"]) if s["e"]["k"] != "none" else "return;\n")
    if k == "load":
        return p + "load(%s);\n" % nexpr(s["e"])
    if k == "store":
        return p + "store(%s);\n" % nexpr(s["e"])
    return stmt(s, ind)


def nstmts(ss, ind=1):
    return "".join(nstmt(s, ind) for s in ss)
