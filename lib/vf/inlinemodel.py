"""Binding of spec/Inline.tla (Layer 2: AssemblyCode::append_code as coded, used the way push_code uses it) to the real code:
the bodies TLC enumerates are pushed through the harness (asmapi objects) and the resulting lines compared with the model's."""
import json, os, random
from . import common


def lname(n):
    return "." + n[0] + "".join("inline%d" % k for k in n[1:])


def to_lines(code):
    out = []
    for l in code:
        if l["k"] == "lab":
            out.append(dict(k="l", name=lname(l["name"])))
        elif l["k"] == "br":
            out.append(dict(k="i", mn=l["mn"], op=lname(l["to"]), nb=l["nb"], cy=3, prot=l["prot"]))
        else:
            out.append(dict(k="i", mn="LDA", op="#%d" % l["id"], nb=l["nb"], cy=2, prot=l["prot"]))
    return out


def shape(lines):
    return [(l["k"], l.get("mn", ""), l.get("op", l.get("name", "")) or "", l.get("nb", 0), bool(l.get("prot", False))) for l in lines if l["k"] in ("i", "l")]


def run(name, maxlen, cap):
    d = common.workdir("inl_" + name)
    cfg = os.path.join(d, "MCInline.cfg")
    open(cfg, "w").write("SPECIFICATION Spec\nCONSTANTS MaxLen = %d\nINVARIANT LabelsOK\nINVARIANT ClosedOK\nINVARIANT SizeOK\nINVARIANT ShapeOK\nINVARIANT EmitConf\nCHECK_DEADLOCK FALSE\n" % maxlen)
    res = common.run_tlc("MCInline", cfg=cfg, name="inl_" + name, tags={"CONF"}, workers=8, heap="8g", timeout=2400)
    if res.violated_invariant:
        raise common.ToolError("design-level check failed: Inline.tla violates %s: %s" % (res.violated_invariant, res.raw_tail[-1200:]))
    common.require_ok(res, "MCInline")
    confs = [o for (_, o) in res.lines]
    confs.sort(key=lambda o: json.dumps(o, sort_keys=True))
    if len(confs) > cap:
        confs = random.Random(common.seed()).sample(confs, cap)
    cases = []
    for i, c in enumerate(confs):
        f = to_lines(c["f"])
        pre8, pre9 = to_lines([dict(k="seg", id=8, nb=2, prot=False)]), to_lines([dict(k="seg", id=9, nb=2, prot=False)])
        gtail = to_lines([dict(k="seg", id=7, nb=1, prot=False), dict(k="br", mn="JMP", to=["endof"], nb=3, prot=False)])
        cases.append(dict(id="tw%d" % i, objs=[dict(name="f", steps=[dict(lines=f)]), dict(name="main", steps=[dict(lines=pre8), dict(push="f", k=1), dict(push="f", k=2)])]))
        cases.append(dict(id="ne%d" % i, objs=[dict(name="f", steps=[dict(lines=f)]), dict(name="g", steps=[dict(lines=pre9), dict(push="f", k=1), dict(lines=gtail)]),
                                               dict(name="main", steps=[dict(push="g", k=2), dict(push="g", k=3)])]))
    obs = common.run_harness("asmapi", cases, "inl_" + name)
    drift = []
    for i, c in enumerate(confs):
        for j, key in ((2 * i, "twice"), (2 * i + 1, "nested")):
            o = obs[j][0] if obs[j] else {"status": "missing"}
            if o.get("status") != "ok" or shape(o["lines"]) != shape(to_lines(c[key])):
                drift.append(dict(body=shape(to_lines(c["f"])), scenario=key, model=shape(to_lines(c[key])), real=shape(o.get("lines", [])) if o.get("status") == "ok" else o.get("status")))
    return res, confs, drift
