"""C04 (reported size = assembled size) and C13 (emitted assembly always assembles), decided by Asm.tla."""
import json, time, random
from . import common, refine, vocab, render, asmcheck, checks_refine
from .common import log

RAMV = ["a", "b", "c", "sa", "sb", "s", "t", "ss", "arr", "sarr"]
PLACEMENTS = {
    "zp": (None, "4K", []),
    "ramchip": ({n: "ramchip" for n in RAMV}, "4K", []),
    "superchip": ({n: "superchip" for n in RAMV}, "4K", []),
    "mixed": ({"a": "superchip", "s": "ramchip", "arr": "superchip", "sarr": "ramchip", "sa": "ramchip"}, "4K", []),
    "bank3E": ({n: "bank1" for n in RAMV}, "3E", ["-D__3E__"]),
    "bank3EP": ({n: "bank1" for n in RAMV}, "3EP", ["-D__3E_PLUS__"]),
}

# label-stress programs for C13: repeated and nested inlining, goto labels, loops inside inlined code
STRESS = [
    ("inl2", "unsigned char a,b,c; inline char f(char x) { if (x < 4) return x + 1; return x; }\nvoid main() { a = f(b); c = f(a); b = f(c); }"),
    ("inl_nested", "unsigned char a,b,c; inline char f(char x) { if (x) return 1; return 2; }\ninline char g(char y) { return f(y) + f(y + 1); }\nvoid main() { a = g(b); c = g(a); }"),
    ("inl_loop", "unsigned char a,b,c; inline void h() { for (X = 0; X < 3; X++) { if (X == b) continue; c++; } }\nvoid main() { h(); a++; h(); while (a) { a--; h(); } }"),
    ("inl_switch", "unsigned char a,b,c; inline void k(char v) { switch (v) { case 1: c = 1; break; case 2: c = 2; default: c = 9; } }\nvoid main() { k(a); k(b); if (c) k(c); }"),
    ("goto1", "unsigned char a,b,c; void main() { if (a) goto end; b = 1; ifend1: c = 2; end: c++; }"),
    ("goto_fix", "unsigned char a,b,c; void main() { fix1: a++; if (a < b) goto fix1; for (X = 0; X < 2; X++) { forend1: c++; } }"),
    ("goto_fixlong", "unsigned char a,b,c; void main() { fix1: a++; if (a < b) { " + "c++; b--; " * 40 + "} if (c) goto fix1; }"),
    ("inl_goto", "unsigned char a,b,c; inline void q() { if (a) goto out; b++; out: c++; }\nvoid main() { q(); q(); }"),
    ("cont_in_switch", "unsigned char a,b,c; void main() { do { switch (a) { case 1: continue; default: a++; } b--; } while (b); }"),
    ("cont_in_switch_w", "unsigned char a,b,c; void main() { while (b) { switch (a) { case 1: b--; continue; default: a++; } b--; } for (c = 0; c < 3; c++) { switch (a) { case 0: continue; } a--; } }"),
    ("cont_if_in_switch", "unsigned char a,b,c; void main() { do { switch (a) { case 1: if (b) continue; c++; break; default: a++; } b--; } while (b); while (c) { switch (a) { case 2: if (b) break; if (a) continue; } c--; } }"),
    ("assign_const_array", "const char arr[2] = {1, 2}; unsigned char a; void main() { arr = a; }"),
    ("constptr_cross", "char c; char *const P = 0xF0; void main() { c = P[32]; P[20] = c; c = P[2]; }"),
    ("inl_ret", "unsigned char a,b,c; inline char r(char x) { while (x) { if (x == b) return 3; x--; } return 0; }\nvoid main() { a = r(c); b = r(a) + 1; }"),
    ("do_cont", "unsigned char a,b,c; void main() { do { a--; if (a == b) continue; c++; } while (a); do { b--; } while (b); }"),
    ("inl3deep", "unsigned char a,b,c; inline char f1(char x) { if (x) return x; return 1; }\ninline char f2(char x) { return f1(x) + 1; }\ninline char f3(char x) { if (x < 9) return f2(x); return f2(b); }\nvoid main() { a = f3(a); c = f3(c); }"),
]


def corpus(tier, name, scale):
    progs, total = checks_refine.sample_programs(tier, name=name, scale=scale)
    cases = []
    rnd = random.Random(common.seed() + 5)
    for i, p in enumerate(progs):
        fn = sorted(render.calls_in(p["body"]))
        vs = []
        places = ["zp"] + [rnd.choice(["ramchip", "superchip", "mixed", "bank3E", "bank3EP"])] if tier == "quick" else list(PLACEMENTS)
        for pn in places:
            place, scheme, dargs = PLACEMENTS[pn]
            src = vocab.source(p["body"], fn, place=place)
            for lvl in ("-O0", "-O1"):
                vs.append(dict(name="%s%s" % (pn, lvl), args=[lvl] + dargs, src=src, scheme=scheme))
        cases.append(dict(id="%s-%05d" % (p["fam"], i), variants=vs, fam=p["fam"], cfg=dict(text=True)))
    for (n, src) in STRESS:
        cases.append(dict(id="stress-" + n, fam="stress", cfg=dict(text=True), variants=[dict(name=l, args=[l], src=src, scheme="4K") for l in ("-O0", "-O1")]))
    return cases, total


def run_asm(pid, tier, kinds, scale, what):
    t0 = time.time()
    verdict = common.Verdict(pid)
    cases, total = corpus(tier, pid.lower(), scale)
    obs = common.run_harness("compile", cases, pid.lower())
    recs, accepted, rejected, reasons, crashed = [], 0, 0, {}, 0
    srcs = {}
    text_checked = 0
    for c, ob in zip(cases, obs):
        for v, o in zip(c["variants"], ob):
            if o.get("status") == "ok":
                accepted += 1
                if pid == "C13":
                    # what the assembler is handed is the WRITTEN text: it must spell the generated lines (both renderings)
                    for f in o["funcs"]:
                        if "text_plain" in f:
                            text_checked += 1
                            tm = asmcheck.text_mismatch(f)
                            if tm and len(verdict.violations) < 40:
                                verdict.violation("writtenText in %s/%s/%s: %s" % (c["id"], v["name"], f["name"], tm),
                                                  dict(property=pid, function=f["name"], kind="writtenText", detail=tm, source=v["src"], args=v["args"],
                                                       text_plain=f["text_plain"], text_cycles=f.get("text_cycles")))
                rs = asmcheck.func_records(c["id"], v["name"], o, v.get("scheme", "4K"))
                for r in rs:
                    srcs[r["id"]] = (v["src"], v["args"])
                recs += rs
            elif o.get("status") == "err":
                rejected += 1
                m = o["err"].get("msg", "?")
                reasons[m] = reasons.get(m, 0) + 1
            else:
                crashed += 1
    if (accepted < 20) and not verdict.violations:      # (a run that found violations reports them)
        raise common.ToolError("vacuous: only %d programs accepted" % accepted)
    avs, res = asmcheck.run(recs, pid.lower())
    pairs = set()
    for r in recs:
        for l in r["lines"]:
            if l["k"] == "i":
                pairs.add("%s/%s/%s" % (l["mn"], l["syn"], "zp" if l["val"] < 256 else "abs"))
    drift = {}
    seen = set()
    kf = {}
    for fd in verdict.findings:
        for cpat in fd.get("cases", []):
            kf[cpat] = fd["id"]
    for av in avs:
        if av["kind"] in kinds:
            if av["f"] in seen:
                continue
            seen.add(av["f"])
            key = "%s:%s" % (av["f"].split("/")[0], av["kind"])
            if key in kf:
                verdict.attribute(kf[key])
                continue
            src, args = srcs[av["f"]]
            verdict.violation("%s in %s: %s" % (av["kind"], av["f"], av["detail"]),
                              dict(property=pid, function=av["f"], kind=av["kind"], detail=av["detail"], line=av["line"], source=src, args=args,
                                   lines=[l for r in recs if r["id"] == av["f"] for l in r["lines"]]))
        else:
            drift[av["kind"]] = drift.get(av["kind"], 0) + 1
    nl = sum(len(r["lines"]) for r in recs)
    cov = dict(states=res.distinct, transitions=res.generated, traces_validated_against_impl=len(recs),
               samples=[dict(function=r["id"], reported_size=r["size"], first_lines=[(l["mn"] + " " + l["syn"]) if l["k"] == "i" else l["k"] + ":" + l["name"] for l in r["lines"][:12]]) for r in recs[:3]],
               programs_compiled=accepted + rejected + crashed, accepted=accepted, rejected_by_compiler=rejected, reject_reasons=reasons,
               functions_checked=len(recs), lines_checked=nl, functions_whose_written_text_was_compared=text_checked, mnemonic_syntax_class_triples_seen=sorted(pairs),
               other_conditions_broken_not_part_of_this_property=drift, exhaustive=False, explanation=what)
    common.write_evidence(pid, tier, "model_checking", cov, time.time() - t0, len(verdict.violations),
                          ["Enc6502 table transcribed from the NMOS 6502 opcode matrix (self-checked)", "inline assembly counted at its declared size",
                           "product-specific memory classes placed at or above $100 by the harness layout"])
    return verdict.finish()


def c04(tier):
    return run_asm("C04", tier, {"totalSizeReportedSmaller", "totalSizeReportedLarger"}, 0.5,
                   "Every function emitted for the corpus (GenProg sample x variable placements x -O0/-O1, plus label-stress programs) is "
                   "consumed line by line by Asm.tla; the sum of true encoding sizes (Enc6502) must equal size_bytes().")


def c13(tier):
    return run_asm("C13", tier, {"legalMode", "uniqueLabel", "definedRef"}, 0.5,
                   "Every emitted function is consumed by Asm.tla: each instruction must use a (mnemonic, mode) pair of the 6502, "
                   "labels must be unique within the function and every reference defined.")


REGISTRY = {"C04": c04, "C13": c13}
