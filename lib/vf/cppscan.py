"""Binding of spec/CppScan.tla (Layer 2: the comment / string scanner of cpp::process as coded) to the real preprocessor:
the texts TLC enumerates are preprocessed by the real code (harness mode cpp, with the event hook) and compared
 - with the model's prediction (emitted text, literals, error, per-line emission / comment state / line span): a difference
   is model drift, reported in the evidence, not a verdict;
 - with the textbook scanner's result computed by TLC (Norm of the text, list of literals), on the well-formed texts outside
   the deviation classes the model names that the real preprocessor ACCEPTS: a difference there is a violation (C11 for the
   text, C09 for the literals).  A refusal is never a violation (the properties speak of accepted programs)."""
import json, os, random, re
from . import common

REAL = {"@": "@", "a": "a", " ": " ", "/": "/", "*": "*", "q": '"', "b": "\\", "s": "'", "n": "\n"}


def render(seq):
    return "".join(REAL[c] for c in seq)


def norm(s):
    return " ".join(s.split())


def run(tier, name, maxlen, full_len, emit_mod, cap, pieces=False):
    """pieces: texts are built from at most maxlen pieces (MCCppScan!Pieces) instead of characters
    -> (tlc result, cases replayed, drifts, text violations, literal violations)"""
    d = common.workdir("cs_" + name)
    cfg = os.path.join(d, "MCCppScan.cfg")
    open(cfg, "w").write("SPECIFICATION %s\nCONSTANTS MaxLen = %d\n EmitFullLen = %d\n EmitMod = %d\nINVARIANT TextReq\nINVARIANT LitReq\nINVARIANT CommentReq\n"
                         "INVARIANT LinesReq\nINVARIANT %s\nCHECK_DEADLOCK FALSE\n" % ("PSpec" if pieces else "Spec", maxlen, full_len, emit_mod, "PEmitConf" if pieces else "EmitConf"))
    res = common.run_tlc("MCCppScan", cfg=cfg, name="cs_" + name, tags={"CONF"}, workers=8, heap="10g", timeout=3000)
    if res.violated_invariant:
        raise common.ToolError("design-level check failed: CppScan.tla violates %s (the model of the scanner is wrong, or the scanner as coded is): %s"
                               % (res.violated_invariant, res.raw_tail[-1500:]))
    common.require_ok(res, "MCCppScan")
    confs = [o for (_, o) in res.lines]
    confs.sort(key=lambda o: json.dumps(o["text"]))
    if len(confs) > cap:
        confs = random.Random(common.seed()).sample(confs, cap)
    obs = common.run_harness("cpp", [dict(id="cs%d" % i, src=render(c["text"]), file="main.c", files={}, trace=True) for i, c in enumerate(confs)], "cs_" + name)
    drift, tviol, lviol = [], [], []
    for c, ob in zip(confs, obs):
        o = ob[0] if isinstance(ob, list) else ob
        src = render(c["text"])
        if o.get("status") not in ("ok", "err"):
            drift.append(dict(text=src, model="err" if c["err"] else "ok", real=o.get("status"), detail=str(o.get("panic", ""))[:200]))
            continue
        real_err = o["status"] == "err"
        if real_err != c["err"]:
            drift.append(dict(text=src, model="err" if c["err"] else "ok", real=o["status"], detail=json.dumps(o.get("err"))[:200]))
        if not real_err:
            text = o["text"]
            nums = [int(x) for x in re.findall(r"@(\d+)@", text)]
            flat = re.sub(r"@\d+@", "@", text)
            lits = o.get("literals", [])
            if not c["err"]:
                ev = [e for e in o.get("events", []) if e.get("file") == "main.c"]
                got = dict(out=flat, lits=lits, incs=[bool(e["incomment"]) for e in ev], emitted=[e["emitted"] for e in ev],
                           first=[e["first"] for e in ev], last=[e["line"] for e in ev])
                want = dict(out=render(c["out"]), lits=[render(l) for l in c["lits"]], incs=c["incs"], emitted=c["emitted"], first=c["first"], last=c["last"])
                if common.TRACE_HOOK[0]:
                    bad = [k for k in want if got[k] != want[k]]
                else:
                    bad = [k for k in ("out", "lits") if got[k] != want[k]]
                if nums != list(range(len(nums))):
                    bad.append("numbering")
                if bad:
                    drift.append(dict(text=src, fields=bad, model={k: want[k] for k in bad if k in want}, real={k: got[k] for k in bad if k in got}))
            if c["wf"] and not c["dev"]:
                if norm(flat) != norm(render(c["refout"])):
                    tviol.append(dict(text=src, emitted=flat, textbook=render(c["refout"])))
                if lits != [render(l) for l in c["reflits"]]:
                    lviol.append(dict(text=src, literals=lits, textbook=[render(l) for l in c["reflits"]]))
        # (a well-formed text that the real preprocessor refuses is drift, reported above: no listed property forbids refusing)
    return res, confs, drift, tviol, lviol


def run_both(tier, name, light=False):
    """the character generator and the piece generator; light: the thinner sample used where only the literals are judged
    -> (distinct texts model-checked, texts replayed, drifts, text violations, literal violations)"""
    if tier == "quick":
        plan = [((6, 4, 59, 14000), False), ((4, 3, 23, 14000), True)] if light else [((6, 5, 29, 60000), False), ((4, 3, 11, 20000), True)]
    else:
        plan = [((7, 5, 29, 150000), False), ((5, 3, 29, 90000), True)] if light else [((7, 5, 7, 400000), False), ((5, 3, 7, 300000), True)]
    distinct, confs, drift, tv, lv = 0, 0, [], [], []
    for args, pieces in plan:
        r = run(tier, name + ("p" if pieces else "c"), *args, pieces=pieces)
        distinct += r[0].distinct
        confs += len(r[1])
        drift += r[2]
        tv += r[3]
        lv += r[4]
    return distinct, confs, drift, tv, lv
