---------------------------- MODULE MCBranchFix ----------------------------
(* Bounded exploration of BranchFix: every body of at most MaxLen items over the alphabet below. *)
EXTENDS BranchFix, Json
CONSTANTS MaxLen, Kinds, Sizes
VARIABLE code
Labels == {<<"L", 1>>, <<"L", 2>>}
Items(n) == {Lab(l) : l \in Labels} \cup {Br(mn, l) : mn \in Kinds \cup {"JMP"}, l \in Labels} \cup {Seg(n, sz) : sz \in Sizes}
Init == code = <<>>
Next == Len(code) < MaxLen /\ \E it \in Items(Len(code) + 1) : code' = Append(code, it)
Spec == Init /\ [][Next]_code
Res == Fix(code, 0, 8)
Terminates == WellFormed(code) => Res.done
RangeOK == (WellFormed(code) /\ Res.done) => InRange(Res.code)
LabelsOK == (WellFormed(code) /\ Res.done) => UniqueLabels(Res.code)
\* conformance cases: bodies needing a repair, printed with the model's result, to be replayed through the real check_branches()
EmitConf == (Len(code) = MaxLen /\ WellFormed(code) /\ Res.done /\ Res.fixes >= 1) => PrintT("CONF " \o ToJson([code |-> code, fixed |-> Res.code, fixes |-> Res.fixes]))
SomeRepair == ~(WellFormed(code) /\ Res.done /\ Res.fixes >= 2)     \* anti-vacuity probe: must be VIOLATED
AnyRepair == ~(WellFormed(code) /\ Res.done /\ Res.fixes >= 1)      \* anti-vacuity probe: must be VIOLATED
PairRepair == ~(WellFormed(code) /\ \E p \in FarSet(code) : IsPair(code, p))   \* the two-instruction <= sequence gets repaired: must be VIOLATED
Limit129 == 129
PathOK == (WellFormed(code) /\ Res.done) => SamePath(code, Res.code)
=============================================================================
