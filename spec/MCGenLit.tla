---- MODULE MCGenLit ----
EXTENDS GenLit
FullAlphabet == LitNames
====
