------------------------------- MODULE Lexer -------------------------------
(***************************************************************************)
(* Layer 1: C's lexical rules as far as C09 and C11 need them.              *)
(*                                                                          *)
(* Source text is a sequence of symbolic characters (Sym).  Each symbol has *)
(* a spelling (raw, used by the renderer) and, inside a literal, a decoded  *)
(* byte (Decode).  Scan is the reference scanner: a state machine over      *)
(* code | string | stringEsc | char | charEsc | lineComment | blockComment  *)
(* that says for every character whether it belongs to a token (and to      *)
(* which literal) or is layout/comment.  From it:                           *)
(*   LiteralBytes(body) - the bytes a string literal denotes (+ one NUL)    *)
(*   Significant(text)  - the characters that survive comment/layout        *)
(*                        removal (C11: decoration does not change tokens)  *)
(***************************************************************************)
EXTENDS Integers, Sequences, TLC

\* symbols that may occur inside a literal body: name -> [raw spelling, decoded bytes]
LitSyms == [
  a |-> [raw |-> "a", b |-> <<97>>], Z |-> [raw |-> "Z", b |-> <<90>>], d0 |-> [raw |-> "0", b |-> <<48>>], d7 |-> [raw |-> "7", b |-> <<55>>],
  sp |-> [raw |-> " ", b |-> <<32>>], M |-> [raw |-> "MAC", b |-> <<77, 65, 67>>], Q |-> [raw |-> "Q", b |-> <<81>>],
  dq |-> [raw |-> "\"", b |-> <<34>>],      \* an unescaped double quote: legal in a character constant only
  eq |-> [raw |-> "\\\"", b |-> <<34>>], ebs |-> [raw |-> "\\\\", b |-> <<92>>],
  en |-> [raw |-> "\\n", b |-> <<10>>], er |-> [raw |-> "\\r", b |-> <<13>>], et |-> [raw |-> "\\t", b |-> <<9>>],
  ea |-> [raw |-> "\\a", b |-> <<7>>], eb |-> [raw |-> "\\b", b |-> <<8>>], ef |-> [raw |-> "\\f", b |-> <<12>>],
  ev |-> [raw |-> "\\v", b |-> <<11>>], e0 |-> [raw |-> "\\0", b |-> <<0>>],
  sl |-> [raw |-> "/", b |-> <<47>>], st |-> [raw |-> "*", b |-> <<42>>], hash |-> [raw |-> "#", b |-> <<35>>], at |-> [raw |-> "@", b |-> <<64>>],
  comma |-> [raw |-> ",", b |-> <<44>>], lp |-> [raw |-> "(", b |-> <<40>>], rp |-> [raw |-> ")", b |-> <<41>>], sq |-> [raw |-> "'", b |-> <<39>>],
  slsl |-> [raw |-> "//", b |-> <<47, 47>>], slst |-> [raw |-> "/*", b |-> <<47, 42>>], stsl |-> [raw |-> "*/", b |-> <<42, 47>>],
  semi |-> [raw |-> ";", b |-> <<59>>], pct |-> [raw |-> "%d", b |-> <<37, 100>>], def |-> [raw |-> "#define", b |-> <<35, 100, 101, 102, 105, 110, 101>>] ]
LitNames == DOMAIN LitSyms

RECURSIVE Cat(_, _)
Cat(body, i) == IF i > Len(body) THEN <<>> ELSE LitSyms[body[i]].b \o Cat(body, i + 1)
\* the bytes stored for a string literal with this body: decoded characters in order, then one NUL
LiteralBytes(body) == Cat(body, 1) \o <<0>>
\* adjacent literals concatenate
RECURSIVE CatAll(_, _)
CatAll(bodies, i) == IF i > Len(bodies) THEN <<>> ELSE Cat(bodies[i], 1) \o CatAll(bodies, i + 1)
ConcatBytes(bodies) == CatAll(bodies, 1) \o <<0>>
\* a character constant denotes its (single) character's code
CharValue(sym) == LitSyms[sym].b[1]

(***************************************************************************)
(* Reference scanner over an abstract character alphabet:                   *)
(*   "c" ordinary code character   "w" white space   "nl" newline           *)
(*   "q" double quote  "s" single quote  "bs" backslash                     *)
(*   "/" slash   "*" star                                                   *)
(* Scan(text) returns for each position TRUE iff the character is           *)
(* significant (part of a token, including everything inside literals).     *)
(***************************************************************************)
RECURSIVE ScanFrom(_, _, _, _)
ScanFrom(t, i, mode, acc) ==
  IF i > Len(t) THEN acc ELSE
  LET ch == t[i]
      nxt == IF i < Len(t) THEN t[i + 1] ELSE "eof"
  IN
  CASE mode = "code" ->
         (IF ch = "/" /\ nxt = "/" THEN ScanFrom(t, i + 2, "line", acc \o <<FALSE, FALSE>>)
          ELSE IF ch = "/" /\ nxt = "*" THEN ScanFrom(t, i + 2, "block", acc \o <<FALSE, FALSE>>)
          ELSE IF ch = "q" THEN ScanFrom(t, i + 1, "str", Append(acc, TRUE))
          ELSE IF ch = "s" THEN ScanFrom(t, i + 1, "chr", Append(acc, TRUE))
          ELSE ScanFrom(t, i + 1, "code", Append(acc, ch \notin {"w", "nl"})))
    [] mode = "str" ->
         (IF ch = "bs" /\ nxt # "eof" THEN ScanFrom(t, i + 2, "str", acc \o <<TRUE, TRUE>>)
          ELSE IF ch = "q" THEN ScanFrom(t, i + 1, "code", Append(acc, TRUE))
          ELSE ScanFrom(t, i + 1, "str", Append(acc, TRUE)))
    [] mode = "chr" ->
         (IF ch = "bs" /\ nxt # "eof" THEN ScanFrom(t, i + 2, "chr", acc \o <<TRUE, TRUE>>)
          ELSE IF ch = "s" THEN ScanFrom(t, i + 1, "code", Append(acc, TRUE))
          ELSE ScanFrom(t, i + 1, "chr", Append(acc, TRUE)))
    [] mode = "line" ->
         (IF ch = "nl" THEN ScanFrom(t, i + 1, "code", Append(acc, FALSE))
          ELSE ScanFrom(t, i + 1, "line", Append(acc, FALSE)))
    [] mode = "block" ->
         (IF ch = "*" /\ nxt = "/" THEN ScanFrom(t, i + 2, "code", acc \o <<FALSE, FALSE>>)
          ELSE ScanFrom(t, i + 1, "block", Append(acc, FALSE)))
Scan(t) == ScanFrom(t, 1, "code", <<>>)
RECURSIVE Pick(_, _, _)
Pick(t, m, i) == IF i > Len(t) THEN <<>> ELSE (IF m[i] THEN <<t[i]>> ELSE <<>>) \o Pick(t, m, i + 1)
Significant(t) == Pick(t, Scan(t), 1)

\* self-tests
ASSUME LiteralBytes(<<"a", "en", "eq", "ebs">>) = <<97, 10, 34, 92, 0>>
ASSUME LiteralBytes(<<>>) = <<0>>
ASSUME LiteralBytes(<<"ef", "ev", "ea", "eb", "et", "er", "e0">>) = <<12, 11, 7, 8, 9, 13, 0, 0>>
ASSUME ConcatBytes(<<<<"a">>, <<"Z", "slsl">>>>) = <<97, 90, 47, 47, 0>>
ASSUME Significant(<<"c", "w", "/", "*", "q", "*", "*", "/", "c">>) = <<"c", "c">>
ASSUME Significant(<<"c", "/", "/", "q", "c", "nl", "c">>) = <<"c", "c">>
ASSUME Significant(<<"q", "/", "/", "q", "c">>) = <<"q", "/", "/", "q", "c">>
ASSUME Significant(<<"q", "bs", "q", "/", "*", "q", "c">>) = <<"q", "bs", "q", "/", "*", "q", "c">>
ASSUME Significant(<<"/", "*", "/", "/", "c", "*", "/", "c">>) = <<"c">>
ASSUME Significant(<<"s", "q", "s", "c">>) = <<"s", "q", "s", "c">>
ASSUME Significant(<<"/", "*", "c", "*", "/", "c", "*", "/">>) = <<"c", "*", "/">>
=============================================================================
