----------------------------- MODULE Determinism -----------------------------
(***************************************************************************)
(* C05: compilation is a function of (source, options).  A recorded history *)
(* of compilations - several per process, interleaved with compilations of  *)
(* other programs, and across fresh processes - is validated: the history   *)
(* variable seen maps every (source, options) already compiled to the       *)
(* digest of its complete observable result (variables with order and       *)
(* contents, literals, functions with their emitted lines, call tree,       *)
(* in-use set, diagnostics); event l is accepted iff it agrees with seen.   *)
(* Disagreeing events are printed as  NONDET {json}.                        *)
(***************************************************************************)
EXTENDS Integers, Sequences, Json, IOUtils, TLC
Hist == ndJsonDeserialize(IOEnv.HIST)
VARIABLES seen, l
Key(e) == <<e.src, e.opts>>
Init == seen = [k \in {} |-> ""] /\ l = 1
Agrees(e) == Key(e) \notin DOMAIN seen \/ seen[Key(e)] = e.digest
Next == /\ l <= Len(Hist)
        /\ seen' = IF Key(Hist[l]) \in DOMAIN seen THEN seen ELSE seen @@ (Key(Hist[l]) :> Hist[l].digest)
        /\ l' = l + 1
Report == l <= Len(Hist) => (Agrees(Hist[l]) \/ PrintT("NONDET " \o ToJson([n |-> l, src |-> Hist[l].src, opts |-> Hist[l].opts, proc |-> Hist[l].proc])))
=============================================================================
