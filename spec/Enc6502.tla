------------------------------ MODULE Enc6502 ------------------------------
(***************************************************************************)
(* The NMOS 6502 instruction-set table: which (mnemonic, addressing mode)   *)
(* pairs exist, how many bytes and base cycles each takes, and the rule an  *)
(* assembler (dasm) uses to pick the mode from the operand's syntax and     *)
(* value.  This module is the oracle of C04 (sizes) and C13 (legality) and  *)
(* is used by M6502 to execute emitted code.  Layer 1.                      *)
(***************************************************************************)
EXTENDS Integers, FiniteSets, TLC

Modes == {"imp", "acc", "imm", "zp", "zpx", "zpy", "abs", "absx", "absy",
          "ind", "indx", "indy", "rel"}

Alu8     == {"ORA", "AND", "EOR", "ADC", "LDA", "CMP", "SBC"}
Shifts   == {"ASL", "ROL", "LSR", "ROR"}
IncDec   == {"INC", "DEC"}
Branches == {"BPL", "BMI", "BVC", "BVS", "BCC", "BCS", "BNE", "BEQ"}
Implied  == {"BRK", "RTI", "RTS", "PHP", "PLP", "PHA", "PLA", "DEY", "TAY",
             "INY", "INX", "CLC", "SEC", "CLI", "SEI", "TYA", "CLV", "CLD",
             "SED", "TXA", "TXS", "TAX", "TSX", "DEX", "NOP"}
Mnemonics == Alu8 \cup Shifts \cup IncDec \cup Branches \cup Implied \cup
             {"STA", "LDX", "LDY", "STX", "STY", "CPX", "CPY", "BIT", "JMP", "JSR"}

\* The legal (mnemonic, mode) pairs of the documented instruction set.
LegalPairs ==
       (Alu8 \X {"imm", "zp", "zpx", "abs", "absx", "absy", "indx", "indy"})
  \cup ({"STA"} \X {"zp", "zpx", "abs", "absx", "absy", "indx", "indy"})
  \cup (Shifts \X {"acc", "zp", "zpx", "abs", "absx"})
  \cup (IncDec \X {"zp", "zpx", "abs", "absx"})
  \cup ({"LDX"} \X {"imm", "zp", "zpy", "abs", "absy"})
  \cup ({"LDY"} \X {"imm", "zp", "zpx", "abs", "absx"})
  \cup ({"STX"} \X {"zp", "zpy", "abs"})
  \cup ({"STY"} \X {"zp", "zpx", "abs"})
  \cup ({"CPX", "CPY"} \X {"imm", "zp", "abs"})
  \cup ({"BIT"} \X {"zp", "abs"})
  \cup ({"JMP"} \X {"abs", "ind"})
  \cup ({"JSR"} \X {"abs"})
  \cup (Branches \X {"rel"})
  \cup (Implied \X {"imp"})

Legal(mn, mode) == <<mn, mode>> \in LegalPairs

Size(mode) ==
  CASE mode \in {"imp", "acc"} -> 1
    [] mode \in {"imm", "zp", "zpx", "zpy", "indx", "indy", "rel"} -> 2
    [] mode \in {"abs", "absx", "absy", "ind"} -> 3

IsStore(mn) == mn \in {"STA", "STX", "STY"}
IsRMW(mn) == mn \in Shifts \cup IncDec

\* Base cycle count (no page-crossing penalty, branch not taken).
Cycles(mn, mode) ==
  CASE mn \in Branches -> 2
    [] mn = "JMP" -> (IF mode = "ind" THEN 5 ELSE 3)
    [] mn \in {"JSR", "RTS", "RTI"} -> 6
    [] mn = "BRK" -> 7
    [] mn \in {"PHA", "PHP"} -> 3
    [] mn \in {"PLA", "PLP"} -> 4
    [] mode \in {"imp", "acc"} -> 2
    [] IsRMW(mn) -> (CASE mode = "zp" -> 5 [] mode = "zpx" -> 6 [] mode = "abs" -> 6 [] mode = "absx" -> 7)
    [] mode = "imm" -> 2
    [] mode = "zp" -> 3
    [] mode \in {"zpx", "zpy", "abs"} -> 4
    [] mode \in {"absx", "absy"} -> (IF IsStore(mn) THEN 5 ELSE 4)
    [] mode = "indx" -> 6
    [] mode = "indy" -> (IF IsStore(mn) THEN 6 ELSE 5)

(***************************************************************************)
(* Operand syntax classes, as an assembler sees them:                       *)
(*   none   no operand            imm    #expr                              *)
(*   plain  expr                  x      expr,X          y     expr,Y       *)
(*   indy   (expr),Y              indx   (expr,X)        ind   (expr)       *)
(*   label  a code label (target of a branch, JMP or JSR)                   *)
(* val is the value of expr.  dasm selects the zero-page form when the      *)
(* value is known to be below $100 and the mnemonic has such a form, and    *)
(* the absolute form otherwise.                                             *)
(***************************************************************************)
Syntaxes == {"none", "imm", "plain", "x", "y", "indy", "indx", "ind", "label"}

ResolveMode(mn, syn, val) ==
  CASE syn = "none"  -> (IF Legal(mn, "acc") THEN "acc" ELSE "imp")
    [] syn = "imm"   -> "imm"
    [] syn = "label" -> (IF mn \in Branches THEN "rel" ELSE "abs")
    [] syn = "plain" -> (IF val < 256 /\ Legal(mn, "zp") THEN "zp" ELSE "abs")
    [] syn = "x"     -> (IF val < 256 /\ Legal(mn, "zpx") THEN "zpx" ELSE "absx")
    [] syn = "y"     -> (IF val < 256 /\ Legal(mn, "zpy") THEN "zpy" ELSE "absy")
    [] syn = "indy"  -> "indy"
    [] syn = "indx"  -> "indx"
    [] syn = "ind"   -> "ind"

(***************************************************************************)
(* Self-checks of the table (evaluated by TLC when the module is loaded).   *)
(***************************************************************************)
ASSUME Cardinality(Mnemonics) = 56
ASSUME Cardinality(LegalPairs) = 151
ASSUME \A p \in LegalPairs : p[1] \in Mnemonics /\ p[2] \in Modes
ASSUME \A mn \in Mnemonics : \E m \in Modes : Legal(mn, m)
ASSUME \A mn \in Mnemonics : Legal(mn, "zpy") <=> mn \in {"LDX", "STX"}
ASSUME \A mn \in {"STX", "STY", "LDY", "CPX", "CPY", "INC", "DEC", "ASL", "LSR", "ROL", "ROR"} : ~Legal(mn, "absy")
ASSUME \A mn \in {"STX", "STY", "LDX", "CPX", "CPY"} : ~Legal(mn, "absx")
ASSUME \A mn \in Mnemonics : Legal(mn, "indy") <=> mn \in Alu8 \cup {"STA"}
ASSUME \A mn \in Mnemonics : Legal(mn, "acc") <=> mn \in Shifts
ASSUME ~Legal("STA", "imm") /\ ~Legal("INC", "acc") /\ ~Legal("DEC", "acc")
ASSUME ResolveMode("LDA", "y", 130) = "absy" /\ ResolveMode("LDX", "y", 130) = "zpy"
ASSUME ResolveMode("STA", "plain", 128) = "zp" /\ ResolveMode("STA", "plain", 4096) = "abs"
ASSUME ResolveMode("JMP", "label", 5) = "abs" /\ ResolveMode("BNE", "label", 5) = "rel"
ASSUME ResolveMode("ASL", "none", 0) = "acc" /\ ResolveMode("CLC", "none", 0) = "imp"
ASSUME Cycles("NOP", "imp") = 2 /\ Cycles("PHA", "imp") + Cycles("PLA", "imp") = 7
ASSUME Cycles("STA", "zp") = 3 /\ Cycles("DEC", "zp") = 5 /\ Cycles("LDA", "indy") = 5 /\ Cycles("STA", "indy") = 6
ASSUME Cycles("INC", "absx") = 7 /\ Cycles("STA", "absx") = 5 /\ Cycles("LDA", "absx") = 4 /\ Cycles("JSR", "abs") = 6
=============================================================================
