------------------------------ MODULE CppScan ------------------------------
(***************************************************************************)
(* Layer 2: the comment / string scanner of cpp::process AS CODED           *)
(* (src/cpp.rs, the loop over `remaining` of one logical line), next to the  *)
(* textbook scanner of translation phases 2 and 3 (splices removed,          *)
(* comments replaced by white space, string literals and character          *)
(* constants opaque), and what C06 / C09 / C11 need from the first:          *)
(*   - the text it emits equals the textbook text up to the amount of        *)
(*     white space (a comment separates, it never glues, it hides nothing    *)
(*     that follows it);                                                     *)
(*   - the string literals it extracts are the textbook literals, in order;  *)
(*   - it is inside a block comment at the end of a line iff the textbook     *)
(*     scanner is.                                                           *)
(* A text is a sequence of one-character strings over                        *)
(*   "a" (a name character)  " "  "/"  "*"  "q" (double quote)                *)
(*   "b" (backslash)  "s" (single quote)  "n" (line feed).                   *)
(* A string literal is emitted as the one character "@" (the code writes      *)
(* @<number>@; the number is the position in the list of literals).          *)
(***************************************************************************)
EXTENDS Integers, Sequences, TLC

Chars == {"a", " ", "/", "*", "q", "b", "s", "n"}
IsWs(c) == c \in {" ", "n"}
Suffix(s, i) == SubSeq(s, i, Len(s))
EndsWith(s, t) == Len(s) >= Len(t) /\ SubSeq(s, Len(s) - Len(t) + 1, Len(s)) = t
\* first position >= from where pat occurs in s, 0 if there is none  (str::find / split_once / splitn(2, ..))
Occ(s, pat, from) == {i \in from..(Len(s) - Len(pat) + 1) : SubSeq(s, i, i + Len(pat) - 1) = pat}
Find(s, pat, from) == IF Occ(s, pat, from) = {} THEN 0 ELSE CHOOSE i \in Occ(s, pat, from) : \A j \in Occ(s, pat, from) : i <= j

(***************************************************************************)
(* As coded.                                                                *)
(***************************************************************************)
\* the two repairs of the scanner (overridden only by the mutation demonstrations of the self-tests)
CommentSeparates == TRUE          \* a block comment leaves white space behind
BlockBeforeLine == TRUE           \* a // that follows a /* on the line belongs to that comment
\* physical lines as read_line returns them: each with its line feed, the last one possibly without
RECURSIVE PhysLines(_)
PhysLines(t) == IF t = <<>> THEN <<>>
                ELSE LET e == Find(t, <<"n">>, 1) IN
                     IF e = 0 THEN <<t>> ELSE <<SubSeq(t, 1, e)>> \o PhysLines(Suffix(t, e + 1))

\* "Process splices by removing them": while the buffer ends with backslash line-feed, drop both and append the next
\* physical line (if there is none the loop ends: the buffer has lost the two characters).
\* -> [buf, used]  used = number of physical lines consumed
RECURSIVE Splice(_, _, _)
Splice(buf, ls, used) ==
  IF EndsWith(buf, <<"b", "n">>)
  THEN LET b2 == SubSeq(buf, 1, Len(buf) - 2) IN
       IF used < Len(ls) THEN Splice(b2 \o ls[used + 1], ls, used + 1) ELSE [buf |-> b2, used |-> used]
  ELSE [buf |-> buf, used |-> used]

\* the end of a string literal whose opening quote is just before position p of rem: position of the closing quote, 0 if none.
\* A quote closes the literal unless the text since the last resumption point ends with ONE backslash
\* (ends_with("\\") and not ends_with("\\\\")): the code looks at two characters only.
RECURSIVE StrEnd(_, _)
StrEnd(rem, p) ==
  LET k == Find(rem, <<"q">>, p) IN
  IF k = 0 THEN 0
  ELSE LET left == SubSeq(rem, p, k - 1) IN
       IF ~EndsWith(left, <<"b">>) THEN k
       ELSE IF EndsWith(left, <<"b", "b">>) THEN k
       ELSE StrEnd(rem, k + 1)

\* one pass of `while !remaining.is_empty()`; st = [rem, inc, ins, buf, lits, err]
RECURSIVE Scan(_)
Scan(st) ==
  IF st.rem = <<>> \/ st.err THEN st
  ELSE IF st.inc
  THEN LET e == Find(st.rem, <<"*", "/">>, 1) IN
       IF e = 0 THEN st                                                  \* break: the comment goes on
       ELSE LET r2 == Suffix(st.rem, e + 2) IN
            IF r2 = <<>> \/ r2 = <<"n">> THEN [st EXCEPT !.rem = <<>>, !.inc = FALSE]
            ELSE Scan([st EXCEPT !.rem = r2, !.inc = FALSE, !.ins = TRUE])
  ELSE LET rem == st.rem
           sl == Find(rem, <<"/", "/">>, 1)
           sr == Find(rem, <<"/", "*">>, 1)
           code == IF BlockBeforeLine /\ sl # 0 /\ sr # 0 /\ sr < sl THEN rem ELSE IF sl # 0 THEN SubSeq(rem, 1, sl - 1) ELSE rem
           c2 == Find(code, <<"/", "*">>, 1)
           s2 == IF c2 = 0 THEN code ELSE SubSeq(code, 1, c2 - 1)
           q == Find(s2, <<"q">>, 1)
       IN IF q # 0
          THEN LET e == StrEnd(rem, q + 1) IN
               IF e = 0 THEN [st EXCEPT !.err = TRUE]                     \* "Unterminated string"
               ELSE Scan([st EXCEPT !.buf = @ \o SubSeq(s2, 1, q - 1) \o <<"@">>,
                                    !.lits = Append(@, SubSeq(rem, q + 1, e - 1)),
                                    !.rem = Suffix(rem, e + 1)])
          ELSE LET b2 == st.buf \o s2
                   i2 == IF b2 = <<>> THEN FALSE ELSE st.ins
               IN IF c2 # 0
                  THEN Scan([st EXCEPT !.buf = IF CommentSeparates /\ b2 # <<>> /\ ~IsWs(b2[Len(b2)]) THEN Append(b2, " ") ELSE b2,   \* the comment separates
                                       !.ins = i2, !.inc = TRUE, !.rem = Suffix(code, c2 + 2)])
                  ELSE [st EXCEPT !.buf = b2, !.ins = i2, !.rem = <<>>]  \* break: the rest (a line comment) is dropped

\* the whole text: -> [out (emitted characters), lits, err, incs (in_comment after each logical line), emitted (0/1 per logical line),
\*                     first/last (physical lines of each logical line)]
RECURSIVE Lines(_, _, _, _)
Lines(ls, i, inc, acc) ==
  IF i > Len(ls) \/ acc.err THEN acc
  ELSE LET sp == Splice(ls[i], ls, i)
           buf == sp.buf
           haslf == EndsWith(buf, <<"n">>)
           r == Scan([rem |-> buf, inc |-> inc, ins |-> ~inc, buf |-> <<>>, lits |-> <<>>, err |-> FALSE])
           text == IF ~r.ins THEN <<>> ELSE IF ~EndsWith(r.buf, <<"n">>) /\ haslf THEN Append(r.buf, "n") ELSE r.buf
       IN Lines(ls, sp.used + 1, r.inc,
                [out |-> acc.out \o text, lits |-> acc.lits \o r.lits, err |-> r.err,
                 incs |-> Append(acc.incs, r.inc), emitted |-> Append(acc.emitted, IF r.ins THEN 1 ELSE 0),
                 first |-> Append(acc.first, i), last |-> Append(acc.last, sp.used)])
Model(t) == Lines(PhysLines(t), 1, FALSE, [out |-> <<>>, lits |-> <<>>, err |-> FALSE, incs |-> <<>>, emitted |-> <<>>, first |-> <<>>, last |-> <<>>])

(***************************************************************************)
(* Textbook.  Phase 2: every backslash immediately followed by a line feed   *)
(* disappears.  Phase 3, one character at a time:                            *)
(*   code    "/*" -> block, "//" -> line, q -> string, s -> character const.  *)
(*   block   until "*/": one space is emitted                                *)
(*   line    until the line feed (which is kept)                             *)
(*   string  backslash takes the next character with it; q ends it: "@"      *)
(*   chr     the same with s; the constant is emitted as it stands           *)
(* A line feed or the end of the text inside a string or a character         *)
(* constant makes the text ill-formed ("bad"): nothing is required then.     *)
(* incs: is the scanner inside a block comment at the end of each physical   *)
(* line of the spliced text?  (not compared line by line: see InComment)     *)
(***************************************************************************)
RECURSIVE Unsplice(_)
Unsplice(t) == IF t = <<>> THEN <<>>
               ELSE IF Len(t) >= 2 /\ t[1] = "b" /\ t[2] = "n" THEN Unsplice(Suffix(t, 3))
               ELSE <<t[1]>> \o Unsplice(Suffix(t, 2))

RECURSIVE Ref(_, _, _, _)
\* mode \in {"code", "block", "line", "str", "chr"}; cur = content of the literal being read
Ref(t, mode, cur, acc) ==
  IF t = <<>> THEN [acc EXCEPT !.bad = @ \/ mode \in {"str", "chr"}, !.inblock = (mode = "block")]
  ELSE LET c == t[1]
           two == IF Len(t) >= 2 THEN <<t[1], t[2]>> ELSE <<>>
       IN CASE mode = "code" ->
                 IF two = <<"/", "*">> THEN Ref(Suffix(t, 3), "block", <<>>, acc)
                 ELSE IF two = <<"/", "/">> THEN Ref(Suffix(t, 3), "line", <<>>, acc)
                 ELSE IF c = "q" THEN Ref(Suffix(t, 2), "str", <<>>, acc)
                 ELSE IF c = "s" THEN Ref(Suffix(t, 2), "chr", <<>>, [acc EXCEPT !.out = Append(@, "s")])
                 ELSE Ref(Suffix(t, 2), "code", <<>>, [acc EXCEPT !.out = Append(@, c)])
            [] mode = "block" ->
                 IF two = <<"*", "/">> THEN Ref(Suffix(t, 3), "code", <<>>, [acc EXCEPT !.out = Append(@, " ")])
                 ELSE Ref(Suffix(t, 2), "block", <<>>, IF c = "n" THEN [acc EXCEPT !.out = Append(@, "n")] ELSE acc)
            [] mode = "line" ->
                 IF c = "n" THEN Ref(Suffix(t, 2), "code", <<>>, [acc EXCEPT !.out = Append(@, "n")])
                 ELSE Ref(Suffix(t, 2), "line", <<>>, acc)
            [] mode = "str" ->
                 IF c = "n" THEN [acc EXCEPT !.bad = TRUE]
                 ELSE IF c = "b" /\ Len(t) >= 2 /\ t[2] # "n" THEN Ref(Suffix(t, 3), "str", cur \o two, acc)
                 ELSE IF c = "q" THEN Ref(Suffix(t, 2), "code", <<>>, [acc EXCEPT !.out = Append(@, "@"), !.lits = Append(@, cur)])
                 ELSE Ref(Suffix(t, 2), "str", Append(cur, c), acc)
            [] mode = "chr" ->
                 IF c = "n" THEN [acc EXCEPT !.bad = TRUE]
                 ELSE IF c = "b" /\ Len(t) >= 2 /\ t[2] # "n" THEN Ref(Suffix(t, 3), "chr", cur \o two, [acc EXCEPT !.out = @ \o two, !.chrs = Append(@, two)])
                 ELSE IF c = "s" THEN Ref(Suffix(t, 2), "code", <<>>, [acc EXCEPT !.out = Append(@, "s"),      \* one character or one escape
                                                                           !.bad = @ \/ ~(Len(cur) = 1 \/ (Len(cur) = 2 /\ cur[1] = "b"))])
                 ELSE Ref(Suffix(t, 2), "chr", Append(cur, c), [acc EXCEPT !.out = Append(@, c), !.chrs = Append(@, <<c>>)])
Textbook(t) == Ref(Unsplice(t), "code", <<>>, [out |-> <<>>, lits |-> <<>>, bad |-> FALSE, inblock |-> FALSE, chrs |-> <<>>])

\* white space runs collapse to one space, none at the two ends
RECURSIVE Squeeze(_, _)
Squeeze(t, pendingWs) ==
  IF t = <<>> THEN <<>>
  ELSE IF IsWs(t[1]) THEN Squeeze(Suffix(t, 2), TRUE)
  ELSE (IF pendingWs THEN <<" ">> ELSE <<>>) \o <<t[1]>> \o Squeeze(Suffix(t, 2), FALSE)
Norm(t) == LET s == Squeeze(t, FALSE) IN IF s # <<>> /\ s[1] = " " THEN Suffix(s, 2) ELSE s

(***************************************************************************)
(* The requirements, and the classes of texts on which the code as it is     *)
(* deviates from the textbook (each is a statement about the CODE; the       *)
(* checks bind them to the implementation by replay):                        *)
(*  DevQuoteInChar   a double quote inside a character constant ('"', '\"')  *)
(*                   is taken for the start of a string literal;            *)
(*  DevLongEscape    the end of a string literal is decided on the last two  *)
(*                   characters before the quote: after three backslashes    *)
(*                   (an escaped backslash, then an escaped quote) the       *)
(*                   literal is closed too early;                           *)
(*  DevSpliceCascade a line that ends with two backslashes: the code removes  *)
(*                   the splice, finds the buffer ending with backslash line  *)
(*                   feed again and splices once more.                       *)
(***************************************************************************)
WellFormed(t) == ~Textbook(t).bad
HasQuoteInChar(t) == \E i \in 1..Len(Textbook(t).chrs) : \E j \in 1..Len(Textbook(t).chrs[i]) : Textbook(t).chrs[i][j] = "q"
HasLongEscape(t) == \E i \in 1..Len(Textbook(t).lits) : Find(Textbook(t).lits[i], <<"b", "b", "b", "q">>, 1) # 0
HasSpliceCascade(t) == Find(t, <<"b", "b", "n">>, 1) # 0
Deviates(t) == HasQuoteInChar(t) \/ HasLongEscape(t) \/ HasSpliceCascade(t)

TextOK(t)     == (WellFormed(t) /\ ~Deviates(t)) => (~Model(t).err /\ Norm(Model(t).out) = Norm(Textbook(t).out))
LiteralsOK(t) == (WellFormed(t) /\ ~Deviates(t)) => Model(t).lits = Textbook(t).lits
InComment(t)  == (WellFormed(t) /\ ~Deviates(t)) =>
                   (Model(t).incs = <<>> \/ Model(t).incs[Len(Model(t).incs)] = Textbook(t).inblock)
\* line accounting (C06): logical lines tile the physical lines, and each emits at most one line of text
RECURSIVE Count(_, _)
Count(t, c) == IF t = <<>> THEN 0 ELSE (IF t[1] = c THEN 1 ELSE 0) + Count(Suffix(t, 2), c)
LinesOK(t) == LET m == Model(t) IN
              ~m.err => /\ \A i \in 1..Len(m.first) : m.first[i] = (IF i = 1 THEN 1 ELSE m.last[i - 1] + 1) /\ m.last[i] >= m.first[i]
                        /\ (m.last # <<>> => m.last[Len(m.last)] = Len(PhysLines(t)))
=============================================================================
