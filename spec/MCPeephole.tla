----------------------------- MODULE MCPeephole -----------------------------
(***************************************************************************)
(* Bounded exploration of Peephole.tla: every line sequence of up to MaxLen  *)
(* symbols of an alphabet.                                                   *)
(*  - ModelTerminates: the scan ends                                         *)
(*  - ValueSound: for sequences made of the `sound' part of the alphabet     *)
(*    (no branches, no PLA/PHA save/restore idiom, no shifts on memory) the   *)
(*    optimised sequence leaves A, X, Y, the carry, the stack and every       *)
(*    memory cell as the original does, from each test vector                 *)
(*  - EmitConf prints sequences with the model's result, to be replayed       *)
(*    through the real AssemblyCode::optimize (conformance)                   *)
(***************************************************************************)
EXTENDS Peephole, Json
CONSTANTS MaxLen, EmitFullLen, EmitMod
Imm(v) == Op(v, "imm")
Abs(v) == Op(v, "abs")
Syms == << I("LDA", Imm("1")), I("LDA", Abs("a")), I("LDA", Op("arr", "x")), I("LDX", Imm("1")), I("LDX", Abs("a")), I("LDY", Abs("b")),
           I("STA", Abs("a")), I("STA", Abs("b")), I("STX", Abs("b")), I("TAX", NoOp), I("TXA", NoOp), I("TAY", NoOp), I("TYA", NoOp),
           I("INX", NoOp), I("INC", Abs("a")), I("ADC", Imm("1")), I("ASL", NoOp), I("ROL", NoOp), I("CLC", NoOp), I("CMP", Imm("1")), I("ORA", Imm("0")),
           L("l1"), Other, IP("LDA", Abs("a")), Asm, I("LDX", Op("arr", "y")), I("INC", Op("arr", "x")),
           \* outside the value semantics / outside the `sound' alphabet
           I("ASL", Abs("a")), I("PHA", NoOp), I("PLA", NoOp), I("BNE", Abs("l1")), I("BEQ", Abs("l1")), I("JMP", Abs("l1")), I("LDA", Imm("2")), I("CPX", Imm("1")) >>
NSound == 27
VARIABLES idx      \* the sequence, as indices into Syms
Code == [i \in 1..Len(idx) |-> Syms[idx[i]]]
Init == idx = <<>>
Next == Len(idx) < MaxLen /\ \E s \in 1..Len(Syms) : idx' = Append(idx, s)
Spec == Init /\ [][Next]_idx

Res == Opt(Code)
ModelTerminates == Res.done
Mem(a, b, r0, r1, r2) == (<<"a", 0>> :> a) @@ (<<"b", 0>> :> b) @@ (<<"arr", 0>> :> r0) @@ (<<"arr", 1>> :> r1) @@ (<<"arr", 2>> :> r2)
Vectors == {[A |-> 17, X |-> 1, Y |-> 2, C |-> 0, N |-> 0, Z |-> 1, stk |-> <<>>, mem |-> Mem(33, 65, 7, 9, 11)],
            [A |-> 200, X |-> 2, Y |-> 0, C |-> 1, N |-> 0, Z |-> 0, stk |-> <<>>, mem |-> Mem(1, 0, 255, 128, 1)],
            [A |-> 1, X |-> 0, Y |-> 1, C |-> 1, N |-> 1, Z |-> 0, stk |-> <<>>, mem |-> Mem(129, 1, 2, 1, 0)]}
AllSound == \A i \in 1..Len(idx) : idx[i] <= NSound
Vals(m) == [m EXCEPT !.N = 0, !.Z = 0]
ValueSound == AllSound => \A m \in Vectors : Vals(ExecAll(Code, 1, m)) = Vals(ExecAll(Res.code, 1, m))
BeliefSound == (AllSound /\ Res.atEnd) => \A m \in Vectors : BeliefsHold(Res, ExecAll(Res.code, 1, m))
\* the same over the whole value alphabet except branches: expected to be VIOLATED (memory shifts keep beliefs: finding opt-shift-mem;
\* PLA/PHA removal relies on A being dead) - used by the self-tests as an anti-vacuity probe
NoBranch == \A i \in 1..Len(idx) : Syms[idx[i]].k # "i" \/ Syms[idx[i]].mn \notin {"BNE", "BEQ", "JMP"}
ValueSoundAll == NoBranch => \A m \in Vectors : Vals(ExecAll(Code, 1, m)) = Vals(ExecAll(Res.code, 1, m))
OldShiftMns == {"LSR", "ASL"}          \* the tracker before the repair of ROL/ROR: ValueSound must be VIOLATED with it
SomeRemoval == Res.removed < 2        \* anti-vacuity probe: must be VIOLATED

RECURSIVE SumIdx(_, _)
SumIdx(s, i) == IF i > Len(s) THEN 0 ELSE s[i] * (i + 2) + SumIdx(s, i + 1)
\* every sequence up to EmitFullLen symbols, and a fixed 1/EmitMod of the longer ones
Emitted == Len(idx) >= 1 /\ (Len(idx) <= EmitFullLen \/ SumIdx(idx, 1) % EmitMod = 0)
EmitConf == Emitted => PrintT("CONF " \o ToJson([code |-> Code, opt |-> Res.code, removed |-> Res.removed]))
=============================================================================
