-------------------------------- MODULE Asm --------------------------------
(***************************************************************************)
(* What an assembler (dasm) does with the text the compiler emitted for one *)
(* function.  Layer 1 (oracle) for C04, C13 and the range part of C03.      *)
(*                                                                          *)
(* The emitted lines of a function are consumed one per step, twice:        *)
(*   pass 1  assigns addresses with the TRUE encoding sizes                 *)
(*           (Enc6502.Size of Enc6502.ResolveMode) and collects labels,     *)
(*   pass 2  resolves references and measures branch displacements.         *)
(* Acceptance conditions, evaluated as the lines are consumed:              *)
(*   legalMode    every instruction uses a mode the 6502 has for it  (C13)  *)
(*   uniqueLabel  no label is defined twice within the function      (C13)  *)
(*   definedRef   every referenced label/symbol is defined           (C13)  *)
(*   lineSize     true size of the line = the size the compiler declared    *)
(*   totalSize    sum of true sizes = size_bytes() reported          (C04)  *)
(*   inRange      every relative branch spans -128..127 true bytes   (C03)  *)
(* Inline assembly lines count at their declared size and are not judged.   *)
(* Each broken condition is printed as a line  AV {json}; checking goes on. *)
(***************************************************************************)
EXTENDS Enc6502, Sequences, Json, IOUtils

Funcs == ndJsonDeserialize(IOEnv.FUNCS)
\* Funcs[f] = [id, fn, size, globals (sequence of symbols defined outside the function), lines]
\* line = [k |-> "l"|"i"|"a"|"c"|"d", name, mn, syn, val, lab, nb, undef]

VARIABLES f, pass, i, addr, labs, viol
vars == <<f, pass, i, addr, labs, viol>>

Line == Funcs[f].lines[i]
Globals == {Funcs[f].globals[j] : j \in 1..Len(Funcs[f].globals)}
Known(l) == l.mn \in Mnemonics /\ l.syn \in Syntaxes
ModeOf(l) == ResolveMode(l.mn, l.syn, l.val)
TrueSize(l) == IF l.k = "i" THEN (IF Known(l) /\ Legal(l.mn, ModeOf(l)) THEN Size(ModeOf(l)) ELSE l.nb)
               ELSE IF l.k = "a" THEN l.nb ELSE 0

V(kind, detail) == [f |-> Funcs[f].id, fn |-> Funcs[f].fn, line |-> i, kind |-> kind, detail |-> detail]

Init == f = 0 /\ pass = 0 /\ i = 0 /\ addr = 0 /\ labs = <<>> /\ viol = {}

Pick == /\ f = 0 /\ f' \in 1..Len(Funcs)
        /\ pass' = 1 /\ i' = 1 /\ addr' = 0 /\ labs' = [x \in {} |-> 0] /\ viol' = {}

Pass1 ==
  /\ pass = 1 /\ i <= Len(Funcs[f].lines)
  /\ LET l == Line IN
     /\ addr' = addr + TrueSize(l)
     /\ labs' = IF l.k = "l" /\ l.name \notin DOMAIN labs THEN labs @@ (l.name :> addr) ELSE labs
     /\ viol' = viol
          \cup (IF l.k = "l" /\ l.name \in DOMAIN labs THEN {V("uniqueLabel", l.name)} ELSE {})
          \cup (IF l.k = "i" /\ ~(Known(l) /\ Legal(l.mn, ModeOf(l)))
                THEN {V("legalMode", l.mn \o " " \o l.syn)} ELSE {})
          \cup (IF l.k = "i" /\ l.undef THEN {V("definedRef", l.mn \o " " \o l.lab)} ELSE {})
          \cup (IF l.k = "i" /\ Known(l) /\ Legal(l.mn, ModeOf(l)) /\ Size(ModeOf(l)) # l.nb
                THEN {V(IF l.nb < Size(ModeOf(l)) THEN "lineSizeDeclaredSmaller" ELSE "lineSizeDeclaredLarger",
                        l.mn \o " " \o ModeOf(l))} ELSE {})
  /\ i' = i + 1
  /\ UNCHANGED <<f, pass>>

Turn ==
  /\ pass = 1 /\ i > Len(Funcs[f].lines)
  /\ pass' = 2 /\ i' = 1
  /\ viol' = viol \cup (IF addr # Funcs[f].size
                        THEN {V(IF Funcs[f].size < addr THEN "totalSizeReportedSmaller" ELSE "totalSizeReportedLarger",
                                ToString(Funcs[f].size) \o " reported, " \o ToString(addr) \o " assembled")} ELSE {})
  /\ addr' = 0
  /\ UNCHANGED <<f, labs>>

Pass2 ==
  /\ pass = 2 /\ i <= Len(Funcs[f].lines)
  /\ LET l == Line
         isRef == l.k = "i" /\ l.syn = "label"
         here == addr + TrueSize(l)
     IN
     /\ addr' = here
     /\ viol' = viol
          \cup (IF isRef /\ l.lab \notin DOMAIN labs /\ l.lab \notin Globals
                THEN {V("definedRef", l.mn \o " " \o l.lab)} ELSE {})
          \cup (IF isRef /\ l.mn \in Branches /\ l.lab \in DOMAIN labs
                   /\ (labs[l.lab] - here < -128 \/ labs[l.lab] - here > 127)
                THEN {V("inRange", l.mn \o " " \o l.lab \o " displacement " \o ToString(labs[l.lab] - here))} ELSE {})
          \cup (IF isRef /\ l.mn \in Branches /\ l.lab \notin DOMAIN labs /\ l.lab \in Globals
                THEN {V("inRange", l.mn \o " to a symbol outside the function: " \o l.lab)} ELSE {})
  /\ i' = i + 1
  /\ UNCHANGED <<f, pass, labs>>

Finish == pass = 2 /\ i > Len(Funcs[f].lines) /\ pass' = 3 /\ UNCHANGED <<f, i, addr, labs, viol>>

Next == Pick \/ Pass1 \/ Turn \/ Pass2 \/ Finish
Spec == Init /\ [][Next]_vars

Report == pass = 3 => (\A v \in viol : PrintT("AV " \o ToJson(v)))
=============================================================================
