---- MODULE MCGenGraph ----
EXTENDS GenGraph
MCPos == {"stmt", "ifcond", "arg", "loopbody", "ret"}
====
