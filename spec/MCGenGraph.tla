---- MODULE MCGenGraph ----
EXTENDS GenGraph
MCPos == {"binop_rhs", "cmp_rhs", "stmt", "assign"}
====
