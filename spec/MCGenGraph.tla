---- MODULE MCGenGraph ----
EXTENDS GenGraph
MCPos == {"ternary", "switchsel", "forupdate", "whilecond"}
====
