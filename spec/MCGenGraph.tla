---- MODULE MCGenGraph ----
EXTENDS GenGraph
MCPos == {"whilecond", "ternary", "switchcase", "assign", "stmt"}
====
