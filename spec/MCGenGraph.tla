---- MODULE MCGenGraph ----
EXTENDS GenGraph
MCPos == {"switchcase", "index", "dowhilecond", "argofarg", "stmt"}
====
