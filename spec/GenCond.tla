------------------------------ MODULE GenCond ------------------------------
(***************************************************************************)
(* Layer 3 generator for C07 + design-level check of Layer 2 against        *)
(* Layer 1.  Behaviours grow a well-nested item sequence; every complete    *)
(* sequence is (a) run through the implementation-shaped machine CppImpl    *)
(* and compared with the reference semantics CppRef (invariant ImplIsRef:   *)
(* the three-state machine keeps exactly the active text, for every         *)
(* sequence within the bound), and (b) printed with its expected outcome    *)
(* as one line  CASE {json}  for replay into the real preprocessor.         *)
(***************************************************************************)
EXTENDS CppRef, TLC, Json
CONSTANTS MaxLen, MaxDepth, IfConds, ElifConds, DefNames, Extras
VARIABLES seq, open     \* open: for each open group, "else already seen"
vars == <<seq, open>>
Impl == INSTANCE CppImpl

Init == seq = <<>> /\ open = <<>>
Depth == Len(open)
Add(it) == seq' = Append(seq, it)
Next ==
  /\ Len(seq) < MaxLen
  /\ \/ Add([k |-> "text"]) /\ UNCHANGED open
     \/ \E z \in {"define", "undef"} \cup Extras : Add([k |-> z]) /\ UNCHANGED open
     \/ Depth < MaxDepth /\ \E c \in IfConds : Add([k |-> "if", c |-> c]) /\ open' = Append(open, FALSE)
     \/ Depth < MaxDepth /\ \E n \in DefNames, d \in {"ifdef", "ifndef"} : Add([k |-> d, c |-> n]) /\ open' = Append(open, FALSE)
     \/ Depth > 0 /\ ~open[Depth] /\ \E c \in ElifConds : Add([k |-> "elif", c |-> c]) /\ UNCHANGED open
     \/ Depth > 0 /\ ~open[Depth] /\ Add([k |-> "else"]) /\ open' = [open EXCEPT ![Depth] = TRUE]
     \/ Depth > 0 /\ Add([k |-> "endif"]) /\ open' = SubSeq(open, 1, Depth - 1)
Spec == Init /\ [][Next]_vars

\* ---- the implementation-shaped machine run over a sequence ----
RECURSIVE ImplRun(_, _, _, _, _)
ImplRun(s, i, g, z, kept) ==
  IF i > Len(s) THEN [kept |-> kept, z |-> z, err |-> 0] ELSE
  LET it == s[i] IN
  CASE it.k \in {"text", "include"} -> ImplRun(s, i + 1, g, z, IF Impl!Effective(g) THEN kept \cup {i} ELSE kept)
    [] it.k = "define" -> ImplRun(s, i + 1, g, IF Impl!Effective(g) THEN TRUE ELSE z, kept)
    [] it.k = "undef"  -> ImplRun(s, i + 1, g, IF Impl!Effective(g) THEN FALSE ELSE z, kept)
    [] it.k = "cmtdir" -> ImplRun(s, i + 1, g, z, kept)       \* comments are removed before the line is classified, in every state
    [] it.k = "error"  -> (IF Impl!Effective(g) THEN [kept |-> kept, z |-> z, err |-> i] ELSE ImplRun(s, i + 1, g, z, kept))
    [] it.k = "if"     -> ImplRun(s, i + 1, Impl!Open(g, Truth(it.c)), z, kept)
    [] it.k = "ifdef"  -> ImplRun(s, i + 1, Impl!Open(g, Defined(it.c, z)), z, kept)
    [] it.k = "ifndef" -> ImplRun(s, i + 1, Impl!Open(g, ~Defined(it.c, z)), z, kept)
    [] it.k = "elif"   -> ImplRun(s, i + 1, Impl!Elif(g, Truth(it.c)), z, kept)
    [] it.k = "else"   -> ImplRun(s, i + 1, Impl!Else(g), z, kept)
    [] it.k = "endif"  -> ImplRun(s, i + 1, Impl!Endif(g), z, kept)

Complete == Depth = 0 /\ Len(seq) > 0 /\ \E i \in 1..Len(seq) : seq[i].k \in {"if", "ifdef", "ifndef"}
\* design-level property: Layer 2 implements Layer 1 on every complete sequence within the bound
ImplIsRef == Complete => ImplRun(seq, 1, Impl!Start, FALSE, {}) = Outcome(seq)
Emit == Complete =>
  LET r == Outcome(seq) IN
  PrintT("CASE " \o ToJson([seq |-> seq, kept |-> [i \in 1..Len(seq) |-> i \in r.kept], z |-> r.z, err |-> r.err]))
=============================================================================
