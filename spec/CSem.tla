-------------------------------- MODULE CSem --------------------------------
(***************************************************************************)
(* Source semantics of the C dialect accepted by cc6502.  Layer 1 (oracle). *)
(*                                                                          *)
(* Programs are abstract syntax trees (records, as deserialised from JSON). *)
(* Expressions: num var aname idx deref un bin asg inc cond comma call      *)
(* Statements:  expr if while do for switch break continue return block     *)
(*              load store strobe csleep asm nop decl goto                  *)
(*              (labels: field "label" of a statement at the top level of a *)
(*              function body, see RunBody)                                 *)
(*                                                                          *)
(* State st: function from variable names to values (scalars: unsigned      *)
(* integers of the variable's width; arrays: sequences), plus the           *)
(* bookkeeping keys  _fuel (loop/call budget), _ub (1 = the source has no   *)
(* defined meaning for this input, e.g. index out of bounds), _ret, _A      *)
(* (accumulator as seen by load/store; -1 = unspecified), _io (explicit     *)
(* hardware accesses, in order).                                            *)
(*                                                                          *)
(* cx = [vt |-> variable table  name -> [kind, w, sg, n, addr]              *)
(*             kind "s" scalar, "a" array (n elements of width w),          *)
(*             "p" pointer to char,                                         *)
(*       fs |-> function table  name -> [params (names of parameter         *)
(*             cells), body],                                               *)
(*       md |-> "P" | "N"  reading of the dialect's typing:                 *)
(*             P = ISO C, 16-bit int, integer promotion;                    *)
(*             N = no promotion (8-bit operands give 8-bit results),        *)
(*       dev |-> set of enabled known-finding deviation switches]           *)
(* The property fixes only what is common to P and N; checkers compare a    *)
(* target result against both and decide only where they agree.             *)
(***************************************************************************)
EXTENDS Integers, Sequences, Bitwise, TLC

Ty(w, sg) == [w |-> w, sg |-> sg]
IntTy == Ty(16, TRUE)
UIntTy == Ty(16, FALSE)
Pow2(w) == IF w = 8 THEN 256 ELSE 65536
Mod(v, m) == ((v % m) + m) % m
U(v, w) == Mod(v, Pow2(w))                       \* unsigned representation
Wrap(v, ty) == LET u == U(v, ty.w) IN            \* value of the type
               IF ty.sg /\ u >= Pow2(ty.w) \div 2 THEN u - Pow2(ty.w) ELSE u

Promote(ty, md) == IF md = "P" /\ ty.w = 8 THEN IntTy ELSE ty
Common(t1, t2, md) ==
  LET a == Promote(t1, md)
      b == Promote(t2, md)
  IN IF a.w = b.w THEN Ty(a.w, a.sg /\ b.sg) ELSE IF a.w > b.w THEN a ELSE b

Pow(n) == 2 ^ n
\* arithmetic right shift = floor division
Asr(x, n) == IF x >= 0 THEN x \div Pow(n) ELSE -((-x + Pow(n) - 1) \div Pow(n))

VarTy(d) == IF d.kind = "p" THEN UIntTy ELSE Ty(d.w, d.sg)

\* Which object does address a designate?  (pointers may point to char scalars and into char arrays)
Locate(a, vt) ==
  LET hits == {n \in DOMAIN vt :
                 \/ vt[n].kind = "s" /\ vt[n].w = 8 /\ vt[n].addr = a
                 \/ vt[n].kind = "a" /\ vt[n].w = 8 /\ vt[n].addr <= a /\ a < vt[n].addr + vt[n].n}
  IN IF hits = {} THEN [ok |-> FALSE, name |-> "", i |-> 0]
     ELSE LET n == CHOOSE x \in hits : TRUE
          IN [ok |-> TRUE, name |-> n, i |-> IF vt[n].kind = "s" THEN 0 ELSE a - vt[n].addr + 1]

Ub(st) == [st EXCEPT !["_ub"] = 1]
GetLv(lv, st) == IF ~lv.ok THEN 0 ELSE IF lv.i = 0 THEN st[lv.name] ELSE st[lv.name][lv.i]
PutLv(lv, st, u) == IF ~lv.ok THEN Ub(st)
                    ELSE IF lv.i = 0 THEN [st EXCEPT ![lv.name] = u]
                    ELSE [st EXCEPT ![lv.name] = [@ EXCEPT ![lv.i] = u]]

IoAddr(lv, cx) == IF lv.ok /\ "io" \in DOMAIN cx.vt[lv.name] /\ cx.vt[lv.name].io THEN cx.vt[lv.name].addr ELSE -1

Res(v, ty, st, flex) == [v |-> v, ty |-> ty, st |-> st, flex |-> flex]

RECURSIVE Ev(_, _, _), ResLv(_, _, _), EvArgs(_, _, _, _, _), Exec(_, _, _, _), Loop(_, _, _, _), RunSwitch(_, _, _, _, _), RunBody(_, _, _, _)

\* Resolve an lvalue expression to [st, ok, name, i, ty]  (i = 0: scalar, i >= 1: array element)
ResLv(e, st, cx) ==
  CASE e.k = "var" ->
         [st |-> st, ok |-> TRUE, name |-> e.name, i |-> 0, ty |-> VarTy(cx.vt[e.name])]
    [] e.k = "idx" ->
        (LET ix == Ev(e.i, st, cx)
             d == cx.vt[e.arr]
         IN IF d.kind = "a"
            THEN [st |-> ix.st, ok |-> ix.v >= 0 /\ ix.v < d.n, name |-> e.arr, i |-> ix.v + 1, ty |-> Ty(d.w, d.sg)]
            ELSE LET loc == Locate(U(ix.st[e.arr] + ix.v, 16), cx.vt)   \* pointer indexing
                 IN [st |-> ix.st, ok |-> loc.ok, name |-> loc.name, i |-> loc.i, ty |-> Ty(8, d.sg)])
    [] e.k = "deref" ->
        (LET loc == Locate(st[e.p], cx.vt)
         IN [st |-> st, ok |-> loc.ok, name |-> loc.name, i |-> loc.i, ty |-> Ty(8, cx.vt[e.p].sg)])

\* Binary arithmetic on already evaluated operands l, r (records of Ev); st is the state after both.
Arith(op, l, r, st, md) ==
  LET ty == IF md = "N" /\ l.flex /\ ~r.flex THEN r.ty
            ELSE IF md = "N" /\ r.flex /\ ~l.flex THEN l.ty
            ELSE Common(l.ty, r.ty, md)
      lv == Wrap(l.v, ty)
      rv == Wrap(r.v, ty)
      fl == l.flex /\ r.flex
      num(v) == Res(Wrap(v, ty), ty, st, fl)
      bool(b) == Res(IF b THEN 1 ELSE 0, IntTy, st, TRUE)
      lt == IF l.flex THEN IntTy ELSE Promote(l.ty, md)      \* shifts: type of the left operand
      lx == Wrap(l.v, lt)
  IN
  CASE op = "+" -> num(lv + rv)
    [] op = "-" -> num(lv - rv)
    [] op = "&" -> num(U(lv, 16) & U(rv, 16))
    [] op = "|" -> num(U(lv, 16) | U(rv, 16))
    [] op = "^" -> num(U(lv, 16) ^^ U(rv, 16))
    [] op = "<" -> bool(lv < rv)
    [] op = "<=" -> bool(lv <= rv)
    [] op = ">" -> bool(lv > rv)
    [] op = ">=" -> bool(lv >= rv)
    [] op = "==" -> bool(lv = rv)
    [] op = "!=" -> bool(lv # rv)
    [] op = "<<" -> (IF r.v < 0 \/ r.v > 15 THEN Res(0, lt, Ub(st), fl)
                     ELSE Res(Wrap(lx * Pow(r.v), lt), lt, st, fl))
    \* right shift of a negative value is implementation-defined in C: such inputs are not decided
    [] op = ">>" -> (IF r.v < 0 \/ r.v > 15 \/ lx < 0 THEN Res(0, lt, Ub(st), fl)
                     ELSE Res(Asr(lx, r.v), lt, st, fl))

Ev(e, st, cx) ==
  CASE e.k = "num" -> Res(e.n, IF e.n > 32767 THEN UIntTy ELSE IntTy, st, TRUE)
    [] e.k \in {"var", "idx", "deref"} ->
        (LET lv == ResLv(e, st, cx)
             a == IoAddr(lv, cx)
             raw == GetLv(lv, lv.st)
             v == Wrap(raw, lv.ty)
         IN Res(v, lv.ty, IF lv.ok /\ raw >= 0 THEN lv.st ELSE Ub(lv.st), FALSE))
    [] e.k = "aname" -> Res(cx.vt[e.name].addr, UIntTy, st, FALSE)
    [] e.k = "un" ->
        (LET x == Ev(e.e, st, cx)
             ty == IF x.flex THEN IntTy ELSE Promote(x.ty, cx.md)
         IN CASE e.op = "-" -> Res(Wrap(0 - x.v, ty), ty, x.st, x.flex)
              [] e.op = "~" -> Res(Wrap(65535 - U(x.v, 16), ty), ty, x.st, x.flex)
              [] e.op = "!" -> Res(IF x.v = 0 THEN 1 ELSE 0, IntTy, x.st, TRUE))
    [] e.k = "bin" ->
        (IF e.op = "&&" THEN
            (LET l == Ev(e.l, st, cx) IN
             IF l.v = 0 THEN Res(0, IntTy, l.st, TRUE)
             ELSE LET r == Ev(e.r, l.st, cx) IN Res(IF r.v = 0 THEN 0 ELSE 1, IntTy, r.st, TRUE))
         ELSE IF e.op = "||" THEN
            (LET l == Ev(e.l, st, cx) IN
             IF l.v # 0 THEN Res(1, IntTy, l.st, TRUE)
             ELSE LET r == Ev(e.r, l.st, cx) IN Res(IF r.v = 0 THEN 0 ELSE 1, IntTy, r.st, TRUE))
         ELSE
            (LET l == Ev(e.l, st, cx)
                 r == Ev(e.r, l.st, cx)
             IN Arith(e.op, l, r, r.st, cx.md)))
    [] e.k = "asg" ->
        (LET lv == ResLv(e.lhs, st, cx)
             r == Ev(e.e, lv.st, cx)
             cur == Res(Wrap(GetLv(lv, r.st), lv.ty), lv.ty, r.st, FALSE)
             nv == IF e.op = "=" THEN r.v ELSE Arith(e.op, cur, r, r.st, cx.md).v
             nst == IF e.op = "=" THEN r.st ELSE Arith(e.op, cur, r, r.st, cx.md).st
             val == Wrap(nv, lv.ty)
         IN Res(val, lv.ty, PutLv(lv, nst, U(val, lv.ty.w)), FALSE))
    [] e.k = "inc" ->
        (LET lv == ResLv(e.lhs, st, cx)
             old == Wrap(GetLv(lv, lv.st), lv.ty)
             new == Wrap(old + e.d, lv.ty)
         IN Res(IF e.pre THEN new ELSE old, lv.ty, PutLv(lv, lv.st, U(new, lv.ty.w)), FALSE))
    [] e.k = "cond" ->
        (LET c == Ev(e.c, st, cx) IN IF c.v # 0 THEN Ev(e.t, c.st, cx) ELSE Ev(e.e, c.st, cx))
    [] e.k = "comma" -> Ev(e.r, Ev(e.l, st, cx).st, cx)
    [] e.k = "call" ->
        (LET f == cx.fs[e.f]
             st1 == EvArgs(e.args, 1, f.params, st, cx)
             st2 == IF st1["_fuel"] = 0 THEN st1
                    ELSE RunBody(f.body, 1, [st1 EXCEPT !["_fuel"] = @ - 1, !["_ret"] = 0], cx).st
             \* the result has the function's return type: unsigned char, or signed char when the function table says so
             rsg == "rsg" \in DOMAIN f /\ f.rsg
         IN Res(Wrap(st2["_ret"], Ty(8, rsg)), Ty(8, rsg), st2, FALSE))

EvArgs(args, i, params, st, cx) ==
  IF i > Len(args) THEN st ELSE
  LET r == Ev(args[i], st, cx)
      d == cx.vt[params[i]]
  IN EvArgs(args, i + 1, params, [r.st EXCEPT ![params[i]] = U(r.v, IF d.kind = "p" THEN 16 ELSE d.w)], cx)

Stop(st) == st["_fuel"] = 0 \/ st["_ub"] = 1
Out(st, ctl) == [st |-> st, ctl |-> ctl]
Havoc(st) == [st EXCEPT !["_A"] = -1]
LogIo(st, rw, a, v) == IF a < 0 THEN st ELSE [st EXCEPT !["_io"] = Append(@, [rw |-> rw, addr |-> a, val |-> v])]

\* while/for/do loops: s = [c, b, upd, first]  ("first" = skip the test once, for do-while)
Loop(s, skipTest, st, cx) ==
  IF Stop(st) THEN Out(st, "n") ELSE
  LET c == IF skipTest THEN Res(1, IntTy, st, TRUE) ELSE Ev(s.c, st, cx) IN
  IF c.v = 0 THEN Out(c.st, "n") ELSE
  LET b == Exec(s.b, 1, [c.st EXCEPT !["_fuel"] = @ - 1], cx) IN
  IF b.ctl \in {"r", "g"} THEN b                   \* return and goto leave the loop
  ELSE IF b.ctl = "b" THEN Out(b.st, "n")
  ELSE LET u == IF s.upd.k = "none" THEN b.st ELSE Ev(s.upd, b.st, cx).st
       IN Loop(s, FALSE, u, cx)

\* switch: execute case bodies from index j on (fall-through)
RunSwitch(cases, j, st, cx, dummy) ==
  IF j > Len(cases) THEN Out(st, "n") ELSE
  LET b == Exec(cases[j].body, 1, st, cx) IN
  IF b.ctl = "n" THEN RunSwitch(cases, j + 1, b.st, cx, dummy) ELSE b

Exec(stmts, i, st, cx) ==
  IF i > Len(stmts) \/ Stop(st) THEN Out(st, "n") ELSE
  LET s == stmts[i]
      next(st2) == Exec(stmts, i + 1, st2, cx)
      sub(r) == IF r.ctl = "n" THEN next(r.st) ELSE r
  IN
  CASE s.k = "expr" -> next(Havoc(Ev(s.e, st, cx).st))
    [] s.k = "nop" -> next(st)
    \* declaration of a local (the generator gives every local a unique name; scoping is resolved by construction
    \* and tested through the renderer, which prints the short, possibly shadowing, C name)
    [] s.k = "decl" -> (IF s.init.k = "none" THEN next(st)
                        ELSE LET r == Ev(s.init, st, cx)
                                 ty == VarTy(cx.vt[s.name])
                             IN next(Havoc([r.st EXCEPT ![s.name] = U(Wrap(r.v, ty), ty.w)])))
    [] s.k = "block" -> sub(Exec(s.b, 1, st, cx))
    [] s.k = "if" ->
        (LET c == Ev(s.c, st, cx)
         IN sub(Exec(IF c.v # 0 THEN s.t ELSE s.e, 1, Havoc(c.st), cx)))
    [] s.k = "while" -> sub(Loop([c |-> s.c, b |-> s.b, upd |-> [k |-> "none"]], FALSE, Havoc(st), cx))
    [] s.k = "do" -> sub(Loop([c |-> s.c, b |-> s.b, upd |-> [k |-> "none"]], TRUE, Havoc(st), cx))
    [] s.k = "for" ->
        (LET st1 == IF s.init.k = "none" THEN st ELSE Ev(s.init, st, cx).st
         IN sub(Loop([c |-> IF s.c.k = "none" THEN [k |-> "num", n |-> 1] ELSE s.c, b |-> s.b, upd |-> s.upd], FALSE, Havoc(st1), cx)))
    [] s.k = "switch" ->
        (LET v == Ev(s.e, st, cx)
             hit == {j \in 1..Len(s.cases) : \E q \in 1..Len(s.cases[j].vals) : s.cases[j].vals[q] = v.v}
             dfl == {j \in 1..Len(s.cases) : s.cases[j].dflt}
             start == IF hit # {} THEN CHOOSE j \in hit : \A q \in hit : j <= q
                      ELSE IF dfl # {} THEN CHOOSE j \in dfl : TRUE ELSE Len(s.cases) + 1
             r == RunSwitch(s.cases, start, Havoc(v.st), cx, 0)
         IN IF r.ctl = "b" THEN next(r.st) ELSE sub(r))
    [] s.k = "goto" -> [st |-> st, ctl |-> "g", lab |-> s.target]
    [] s.k = "break" -> Out(st, "b")
    [] s.k = "continue" -> Out(st, "c")
    [] s.k = "return" ->
        (IF s.e.k = "none" THEN Out(st, "r")
         ELSE LET r == Ev(s.e, st, cx) IN Out([r.st EXCEPT !["_ret"] = U(r.v, 8)], "r"))
    \* explicit hardware-access statements (C18)
    [] s.k = "load" ->
        (LET r == Ev(s.e, st, cx)
             a == IF s.e.k \in {"var", "idx", "deref"} THEN IoAddr(ResLv(s.e, st, cx), cx) ELSE -1
         IN next(LogIo([r.st EXCEPT !["_A"] = U(r.v, 8)], "r", a, U(r.v, 8))))
    [] s.k = "store" ->
        (LET lv == ResLv(s.e, st, cx)
             a == IoAddr(lv, cx)
         IN IF st["_A"] < 0 THEN Out(Ub(st), "n")
            ELSE next(LogIo(PutLv(lv, lv.st, st["_A"]), "w", a, st["_A"])))
    \* strobe stores whatever the accumulator holds: known after a load, otherwise the cell becomes unknown (-1;
    \* a later read of an unknown cell makes the input undecided)
    [] s.k = "strobe" -> next(LogIo([st EXCEPT ![s.name] = st["_A"]], "w", cx.vt[s.name].addr, st["_A"]))
    [] s.k = "csleep" -> next(st)
    \* inline assembly from the driver's menu, each entry with its stated meaning
    [] s.k = "asm" ->
        (CASE s.eff = "none" -> next(st)
           [] s.eff = "lda" -> next([st EXCEPT !["_A"] = s.n])
           [] s.eff = "inx" -> next([st EXCEPT !["X"] = (@ + 1) % 256])
           [] s.eff = "sta" -> (IF st["_A"] < 0 THEN Out(Ub(st), "n")
                                ELSE next(LogIo([st EXCEPT ![s.name] = st["_A"]], "w", cx.vt[s.name].addr, st["_A"]))))

\* Run a program: main body from an initial assignment of variables.
InitState(inp, fuel) == inp @@ [k \in {"_fuel", "_ub", "_ret", "_A", "_io"} |->
                                  CASE k = "_fuel" -> fuel [] k = "_ub" -> 0 [] k = "_ret" -> 0 [] k = "_A" -> -1
                                    [] k = "_io" -> <<>>]
\* A function body: labels stand on statements of its top level only (a restriction of the generator, not of C); a goto
\* met anywhere inside - in an if, a loop, a switch - unwinds to the top level, which resumes at the labelled statement.
RunBody(body, i, st, cx) ==
  LET r == Exec(body, i, st, cx) IN
  IF r.ctl # "g" \/ Stop(r.st) THEN r
  ELSE LET js == {j \in 1..Len(body) : "label" \in DOMAIN body[j] /\ body[j].label = r.lab}
       IN IF js = {} THEN Out(Ub(r.st), "n")
          ELSE RunBody(body, CHOOSE j \in js : TRUE, [r.st EXCEPT !["_fuel"] = @ - 1], cx)
RunMain(body, inp, fuel, cx) == RunBody(body, 1, InitState(inp, fuel), cx).st
=============================================================================
