SPECIFICATION Spec
CONSTANTS MaxLen = 4
 EmitFullLen = 0
 EmitMod = 1000000
INVARIANT ModelTerminates
INVARIANT ValueSound
INVARIANT BeliefSound
CHECK_DEADLOCK FALSE
