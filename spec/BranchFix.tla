----------------------------- MODULE BranchFix -----------------------------
(***************************************************************************)
(* Layer 2: AssemblyCode::check_branches AS CODED, over abstract function   *)
(* bodies, and its design-level check against the Layer-1 meaning of        *)
(* branches (C03).                                                          *)
(*                                                                          *)
(* A body is a sequence of items                                            *)
(*   [k |-> "lab", name]            a label                                 *)
(*   [k |-> "br", mn, to, nb]       a conditional branch (nb = 2) or JMP     *)
(*   [k |-> "seg", id, nb]          nb bytes of flag-neutral code announcing *)
(*                                  itself as segment id when executed      *)
(* The algorithm (Fix): scan for the first conditional branch whose         *)
(* measured distance exceeds 127 - measured exactly as the code does:       *)
(* items are examined alternately above (starting with the branch itself)   *)
(* and below, the first label match wins, bytes are the declared sizes of   *)
(* the items passed - classify it (BMI/BCC followed by BEQ to the same      *)
(* label is the two-instruction "less-or-equal"), replace it by the negated *)
(* branch over a JMP with fresh labels .fixN (.fixupN for the pair), start  *)
(* again.                                                                   *)
(* Checked by TLC for every well-formed body within the bounds of           *)
(* MCBranchFix:                                                             *)
(*   Terminates   the repair loop ends within the budget                    *)
(*   InRange      afterwards every conditional branch spans -128..127 bytes *)
(*   UniqueLabels no label is defined twice                                 *)
(*   SamePath     for every N/Z/C valuation the sequence of announced       *)
(*                segments equals that of the original body executed with   *)
(*                ideal (unlimited) branches                                *)
(***************************************************************************)
EXTENDS Integers, Sequences, FiniteSets, TLC

Cond == {"BEQ", "BNE", "BMI", "BPL", "BCS", "BCC"}
Lab(n) == [k |-> "lab", name |-> n]
Br(mn, to) == [k |-> "br", mn |-> mn, to |-> to, nb |-> IF mn = "JMP" THEN 3 ELSE 2]
Seg(id, nb) == [k |-> "seg", id |-> id, nb |-> nb]
Bytes(it) == IF it.k = "lab" THEN 0 ELSE it.nb

\* ---- the distance measurement of the code -------------------------------
\* returns [found, above, dist]; ia runs downwards from the branch itself, ib upwards from the next item
RECURSIVE Measure(_, _, _, _, _, _, _)
Measure(code, to, ia, ib, ba, bb, reachedAbove) ==
  LET hitAbove == ~reachedAbove /\ code[ia].k = "lab" /\ code[ia].name = to
      ba2 == IF reachedAbove \/ hitAbove THEN ba ELSE ba + Bytes(code[ia])
      hitBelow == ib <= Len(code) /\ code[ib].k = "lab" /\ code[ib].name = to
      bb2 == IF ib <= Len(code) /\ ~hitBelow THEN bb + Bytes(code[ib]) ELSE bb
  IN IF hitAbove THEN [found |-> TRUE, above |-> TRUE, dist |-> ba]
     ELSE IF hitBelow THEN [found |-> TRUE, above |-> FALSE, dist |-> bb]
     ELSE IF (reachedAbove \/ ia = 1) /\ ib > Len(code) THEN [found |-> FALSE, above |-> FALSE, dist |-> 0]
     ELSE Measure(code, to, IF ia > 1 THEN ia - 1 ELSE ia, ib + 1, ba2, bb2, reachedAbove \/ ia = 1)
Distance(code, p) == Measure(code, code[p].to, p, p + 1, 0, 0, FALSE)

IsCond(it) == it.k = "br" /\ it.mn \in Cond
Limit == 127     \* the code's threshold (overridden only by the mutation demonstration of the self-tests)
FarSet(code) == {p \in 1..Len(code) : IsCond(code[p]) /\ Distance(code, p).found /\ Distance(code, p).dist > Limit}
FirstFar(code) == CHOOSE p \in FarSet(code) : \A q \in FarSet(code) : p <= q

\* ---- the repair ----------------------------------------------------------
IsPair(code, p) == /\ code[p].mn \in {"BMI", "BCC"} /\ p < Len(code)
                   /\ code[p + 1].k = "br" /\ code[p + 1].mn = "BEQ" /\ code[p + 1].to = code[p].to
Signed(mn) == mn \in {"BMI", "BPL"}
\* labels are pairs <<family, number>>: <<"L", i>> in the original body, <<"fix", n>> / <<"fixup", n>> generated
FixLabel(n) == [k |-> "lab", name |-> <<"fix", n>>]
FixupLabel(n) == [k |-> "lab", name |-> <<"fixup", n>>]
\* replacement of the (one or two) branch items at p
Replacement(code, p, n) ==
  LET it == code[p]
      sg == Signed(it.mn)
      far == Br("JMP", it.to)
  IN IF IsPair(code, p)
     THEN \* <=  becomes  >  : BEQ fixup ; BPL/BCS fix ; fixup: ; JMP target ; fix:
          <<Br("BEQ", <<"fixup", n>>), Br(IF sg THEN "BPL" ELSE "BCS", <<"fix", n>>), FixupLabel(n), far, FixLabel(n)>>
     ELSE LET inv == CASE it.mn = "BNE" -> "BEQ" [] it.mn = "BEQ" -> "BNE" [] it.mn = "BMI" -> "BPL" [] it.mn = "BCC" -> "BCS"
                       [] it.mn = "BPL" -> "BMI" [] it.mn = "BCS" -> "BCC"
          IN <<Br(inv, <<"fix", n>>), far, FixLabel(n)>>
Repair(code, p, n) == SubSeq(code, 1, p - 1) \o Replacement(code, p, n)
                      \o SubSeq(code, p + (IF IsPair(code, p) THEN 2 ELSE 1), Len(code))

RECURSIVE Fix(_, _, _)
Fix(code, n, budget) ==
  IF FarSet(code) = {} THEN [code |-> code, fixes |-> n, done |-> TRUE]
  ELSE IF budget = 0 THEN [code |-> code, fixes |-> n, done |-> FALSE]
  ELSE Fix(Repair(code, FirstFar(code), n + 1), n + 1, budget - 1)

\* ---- Layer-1 meaning: addresses and execution ----------------------------
RECURSIVE AddrOf(_, _)
AddrOf(code, i) == IF i = 1 THEN 0 ELSE AddrOf(code, i - 1) + Bytes(code[i - 1])   \* address of item i
LabelIdx(code, l) == {i \in 1..Len(code) : code[i].k = "lab" /\ code[i].name = l}
Disp(code, p) == LET t == CHOOSE i \in LabelIdx(code, code[p].to) : TRUE
                 IN AddrOf(code, t) - (AddrOf(code, p) + 2)
InRange(code) == \A p \in 1..Len(code) : IsCond(code[p]) => (LabelIdx(code, code[p].to) # {} /\ Disp(code, p) \in -128..127)
UniqueLabels(code) == \A i, j \in 1..Len(code) : (code[i].k = "lab" /\ code[j].k = "lab" /\ code[i].name = code[j].name) => i = j

Taken(mn, fl) == CASE mn = "BEQ" -> fl.Z = 1 [] mn = "BNE" -> fl.Z = 0 [] mn = "BMI" -> fl.N = 1 [] mn = "BPL" -> fl.N = 0
                   [] mn = "BCS" -> fl.C = 1 [] mn = "BCC" -> fl.C = 0 [] mn = "JMP" -> TRUE
\* announced segments (at most `fuel` steps, at most `cap` announcements)
RECURSIVE Path(_, _, _, _, _)
Path(code, pc, fl, fuel, acc) ==
  IF pc > Len(code) \/ fuel = 0 \/ Len(acc) >= 8 THEN acc
  ELSE LET it == code[pc] IN
       IF it.k = "lab" THEN Path(code, pc + 1, fl, fuel - 1, acc)
       ELSE IF it.k = "seg" THEN Path(code, pc + 1, fl, fuel - 1, Append(acc, it.id))
       ELSE IF Taken(it.mn, fl) /\ LabelIdx(code, it.to) # {}
            THEN Path(code, CHOOSE i \in LabelIdx(code, it.to) : TRUE, fl, fuel - 1, acc)
            ELSE Path(code, pc + 1, fl, fuel - 1, acc)
Flags == [N : {0, 1}, Z : {0, 1}, C : {0, 1}]
IsPrefix(a, b) == Len(a) <= Len(b) /\ \A i \in 1..Len(a) : a[i] = b[i]
SamePath(orig, fixed) == \A fl \in Flags :
   LET a == Path(orig, 1, fl, 60, <<>>)
       b == Path(fixed, 1, fl, 60, <<>>)
   IN IsPrefix(a, b) \/ IsPrefix(b, a)

WellFormed(code) == /\ UniqueLabels(code)
                    /\ \A p \in 1..Len(code) : code[p].k = "br" => LabelIdx(code, code[p].to) # {}
=============================================================================
