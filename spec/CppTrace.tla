------------------------------ MODULE CppTrace ------------------------------
(***************************************************************************)
(* Trace validation (implementation -> specification) of the preprocessor's *)
(* conditional machine.  Hook H2 logs one event per logical line of         *)
(* cpp::process:  kind, state before, state after, stack depth after,       *)
(* number of output lines emitted.  Every recorded event must be a step of  *)
(* the Layer-2 model CppImpl, and the logged fields must agree with the     *)
(* model's variables.  Conditions are not logged: TLC infers them           *)
(* (\E c \in BOOLEAN).  Runs of several cases are concatenated with         *)
(* "begin" events.  Acceptance: the whole trace is consumed (POSTCONDITION).*)
(***************************************************************************)
EXTENDS CppImpl, Json, IOUtils, TLC
Rec == ndJsonDeserialize(IOEnv.TRACE)
VARIABLES g, l, ln     \* ln: last physical line of the main file consumed so far (line accounting)
tvars == <<g, l, ln>>
TInit == g = Start /\ l = 1 /\ ln = 0
E == Rec[l]
\* every logical line starts right after the previous one ended and spans first..line (splices)
Lines == IF E.kind = "begin" THEN ln' = 0 ELSE E.first = ln + 1 /\ E.line >= E.first /\ ln' = E.line
IsEv(K) == l <= Len(Rec) /\ E.kind \in K /\ l' = l + 1 /\ Lines
Agrees == E.before = g.state /\ E.after = g'.state /\ E.depth = Len(g'.stack)
TBegin == IsEv({"begin"}) /\ g' = Start
TOpen  == IsEv({"if", "ifdef", "ifndef"}) /\ (\E c \in BOOLEAN : g' = Open(g, c)) /\ Agrees /\ E.emitted = 0
TElif  == IsEv({"elif"}) /\ (\E c \in BOOLEAN : g' = Elif(g, c)) /\ Agrees /\ E.emitted = 0
TElse  == IsEv({"else"}) /\ g' = Else(g) /\ Agrees /\ E.emitted = 0
TEndif == IsEv({"endif"}) /\ g.stack # <<>> /\ g' = Endif(g) /\ Agrees /\ E.emitted = 0
TText  == IsEv({"text"}) /\ g' = g /\ Agrees /\ ((E.emitted = 1) <=> Effective(g)) /\ E.emitted \in {0, 1}
TIncl  == IsEv({"include"}) /\ g' = g /\ Agrees /\ (~Effective(g) => E.emitted = 0)
TQuiet == IsEv({"blank", "define", "undef", "error"}) /\ g' = g /\ Agrees /\ E.emitted = 0
TNext == TBegin \/ TOpen \/ TElif \/ TElse \/ TEndif \/ TText \/ TIncl \/ TQuiet
TSpec == TInit /\ [][TNext]_tvars
Accepted == IF TLCGet("stats").diameter - 1 = Len(Rec) THEN TRUE
            ELSE PrintT("REJECTED " \o ToJson([at |-> TLCGet("stats").diameter, event |-> Rec[TLCGet("stats").diameter]])) /\ FALSE
=============================================================================
