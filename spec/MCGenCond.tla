---- MODULE MCGenCond ----
EXTENDS GenCond
MinIf == {"0", "1"}
MinElif == {"0", "1"}
MinDef == {"Z"}
RichIf == {"0", "1", "A", "!A", "B", "!B", "A == B", "A == 1", "C", "!!B", "B == 0", "!A == B"}
RichDef == {"Z", "A", "U"}
NoExtras == {}
ErrInc == {"error", "include", "cmtdir"}
====
