------------------------------ MODULE GenProg ------------------------------
(***************************************************************************)
(* Layer 3: generator of test programs for the refinement checks.  Each     *)
(* behaviour of this spec is one program (family name + main body as an     *)
(* AST in the vocabulary declared below); TLC enumerates the families       *)
(* exhaustively and prints one line  CASE {json}  per program.  The driver  *)
(* renders the AST to C, compiles it with the real compiler and hands the   *)
(* emitted code to Refine.tla, and the AST to SrcEval.tla.                  *)
(***************************************************************************)
EXTENDS Integers, Sequences, FiniteSets, TLC, Json

CONSTANT Fam     \* which family to enumerate

\* ---- AST constructors ---------------------------------------------------
Num(n) == [k |-> "num", n |-> n]
Var(x) == [k |-> "var", name |-> x]
Idx(a, i) == [k |-> "idx", arr |-> a, i |-> i]
Deref(p) == [k |-> "deref", p |-> p]
AName(a) == [k |-> "aname", name |-> a]
Un(op, e) == [k |-> "un", op |-> op, e |-> e]
Bin(op, l, r) == [k |-> "bin", op |-> op, l |-> l, r |-> r]
Asg(op, lhs, e) == [k |-> "asg", op |-> op, lhs |-> lhs, e |-> e]
Inc(pre, d, lhs) == [k |-> "inc", pre |-> pre, d |-> d, lhs |-> lhs]
Cond(c, t, e) == [k |-> "cond", c |-> c, t |-> t, e |-> e]
Comma(l, r) == [k |-> "comma", l |-> l, r |-> r]
Call(f, args) == [k |-> "call", f |-> f, args |-> args]
None == [k |-> "none"]
S(e) == [k |-> "expr", e |-> e]
If(c, t, e) == [k |-> "if", c |-> c, t |-> t, e |-> e]
While(c, b) == [k |-> "while", c |-> c, b |-> b]
Do(b, c) == [k |-> "do", b |-> b, c |-> c]
For(i, c, u, b) == [k |-> "for", init |-> i, c |-> c, upd |-> u, b |-> b]
Case(vals, body) == [vals |-> vals, dflt |-> FALSE, body |-> body]
Default(body) == [vals |-> <<>>, dflt |-> TRUE, body |-> body]
Switch(e, cases) == [k |-> "switch", e |-> e, cases |-> cases]
Break == [k |-> "break"]
Continue == [k |-> "continue"]
Return(e) == [k |-> "return", e |-> e]
Set(x, n) == S(Asg("=", Var(x), Num(n)))

\* ---- vocabulary ---------------------------------------------------------
\* (declared by the driver's header, see lib/vf/vocab.py; names only here)
U8 == {Var("a"), Var("b")}
S8 == {Var("sa")}
Regs == {Var("X"), Var("Y")}
U16 == {Var("s")}
S16 == {Var("ss")}
ArrEl == {Idx("arr", Var("X")), Idx("arr", Var("Y")), Idx("arr", Num(2))}
TabEl == {Idx("tab", Var("X"))}
SArrEl == {Idx("sarr", Var("X"))}
K8 == {Num(0), Num(1), Num(200)}
K16 == {Num(300)}

Leaf8 == U8 \cup S8 \cup Regs \cup ArrEl \cup TabEl \cup K8
Leaf16 == U16 \cup S16 \cup K16 \cup SArrEl
Leaf == Leaf8 \cup Leaf16
Dst8 == {Var("a"), Var("sa"), Var("X"), Var("Y"), Idx("arr", Var("X")), Idx("arr", Var("Y")), Idx("arr", Num(1))}
Dst16 == {Var("s"), Var("ss"), Idx("sarr", Var("X"))}
Dst == Dst8 \cup Dst16

RingOps == {"+", "-", "&", "|", "^"}
RelOps == {"<", "<=", ">", ">=", "==", "!="}
ShiftOps == {"<<", ">>"}
ShiftCounts == {Num(1), Num(3), Num(7), Num(8)}

Prog(fam, body) == [fam |-> fam, body |-> body]

\* F1a: dst = l op r  (ring operators)
F1a == {Prog("F1a", <<S(Asg("=", d, Bin(op, l, r)))>>) : d \in Dst, op \in RingOps, l \in Leaf, r \in Leaf}
\* F1b: shifts by constants, plain and compound
\* (plain shifts into 16-bit destinations are a known defect class, KF-C01-hi16: not generated)
F1b == {Prog("F1b", <<S(Asg("=", d, Bin(op, l, n)))>>) : d \in Dst8, op \in ShiftOps, l \in Leaf \cup {Idx("sarr", Num(2)), Idx("sarr", Var("Y")), Var("t")}, n \in ShiftCounts}
       \cup {Prog("F1b", <<S(Asg(op, d, n))>>) : d \in Dst, op \in ShiftOps, n \in ShiftCounts}
\* F1c: unary operators
F1c == {Prog("F1c", <<S(Asg("=", d, Un(op, l)))>>) : d \in Dst8, op \in {"-", "~", "!"}, l \in Leaf}
       \cup {Prog("F1c", <<S(Asg("=", d, Un("-", l)))>>) : d \in Dst16, l \in Leaf}
\* F1d: compound assignment with ring operators
F1d == {Prog("F1d", <<S(Asg(op, d, r))>>) : d \in Dst, op \in RingOps, r \in Leaf}
\* F1e: ++/-- as statements and as values
F1e == {Prog("F1e", <<S(Inc(pre, dd, d))>>) : pre \in BOOLEAN, dd \in {1, -1}, d \in Dst}
       \* through a pointer (the index register is borrowed and must be given back; the postponed ++ must still see the borrowed index)
       \cup {Prog("F1e", <<S(Inc(pre, dd, d))>>) : pre \in BOOLEAN, dd \in {1, -1}, d \in {Deref("p"), Idx("p", Num(3)), Idx("p", Var("Y")), Idx("p", Var("a")), Idx("arr", Var("a"))}}
       \cup {Prog("F1e", <<S(Inc(FALSE, 1, Deref("p"))), S(Inc(FALSE, 1, Idx("p", Num(3)))), S(Inc(FALSE, -1, Idx("p", Var("a")))), S(Inc(TRUE, 1, Idx("p", Num(2))))>>)}
       \cup {Prog("F1e", <<S(Asg("=", x, Inc(pre, dd, d)))>>) : pre \in BOOLEAN, dd \in {1, -1}, d \in Dst \ {Var("X"), Var("s")},
                                                                   x \in {Var("b"), Var("s"), Var("X")}}
\* F1f: relational and logical operators as values, ternary.
\* Comparison operands are unsigned 8-bit objects and non-zero constants, or unsigned 16-bit scalars among
\* themselves: signed, mixed-width and compare-with-zero shapes are known defect classes (KF-C01-cmp*),
\* kept apart in F2z / F2s so that their failing shapes can be listed.
CmpLeaf == U8 \cup Regs \cup ArrEl \cup TabEl \cup {Num(1), Num(200)}
Cmp16 == {Var("s"), Var("t"), Num(300)}
CmpPairs == (CmpLeaf \X CmpLeaf) \cup (Cmp16 \X Cmp16)
F1f == {Prog("F1f", <<S(Asg("=", d, Bin(op, p[1], p[2])))>>) : d \in {Var("a"), Var("X")}, op \in RelOps, p \in CmpPairs}
       \cup {Prog("F1f", <<S(Asg("=", d, Bin(op, l, r)))>>) : d \in {Var("a"), Var("X")}, op \in {"&&", "||"}, l \in Leaf8, r \in Leaf8}
       \cup {Prog("F1f", <<S(Asg("=", d, Cond(Bin(op, l, r), u, v)))>>) :
               d \in {Var("a"), Var("Y")}, op \in {"<", "==", ">="}, l \in {Var("a"), Var("X"), Idx("arr", Var("X"))}, r \in {Var("b"), Num(1), Num(200)},
               u \in {Var("b"), Num(5), Idx("arr", Var("Y"))}, v \in {Var("Y"), Num(9)}}
\* F1g: plain copies / widening / narrowing
F1g == {Prog("F1g", <<S(Asg("=", d, l))>>) : d \in Dst, l \in Leaf}

\* F2: conditions
ThenElse == <<<<Set("c", 1)>>, <<Set("c", 2)>>>>
F2a == {Prog("F2a", <<If(Bin(op, p[1], p[2]), ThenElse[1], ThenElse[2])>>) : op \in RelOps, p \in CmpPairs}
\* F2z: comparisons with the constant 0; F2s: signed and mixed-width comparisons (known defect classes, see above)
ZLeaf == U8 \cup Regs \cup ArrEl \cup {Var("s")}
F2z == {Prog("F2z", <<If(Bin(op, l, Num(0)), ThenElse[1], ThenElse[2])>>) : op \in RelOps, l \in ZLeaf}
       \cup {Prog("F2z", <<If(Bin(op, Num(0), l), ThenElse[1], ThenElse[2])>>) : op \in RelOps, l \in ZLeaf}
SLeaf == {Var("sa"), Var("sb"), Var("ss"), Var("a"), Var("s"), Num(1), Num(200), Idx("sarr", Var("X"))}
F2s == {Prog("F2s", <<If(Bin(op, l, r), ThenElse[1], ThenElse[2])>>) : op \in RelOps, l \in SLeaf, r \in SLeaf}
          \ {Prog("F2s", <<If(Bin(op, l, r), ThenElse[1], ThenElse[2])>>) : op \in RelOps, l \in {Var("a"), Num(1), Num(200)}, r \in {Var("a"), Num(1), Num(200)}}
F2b == {Prog("F2b", <<If(l, ThenElse[1], ThenElse[2])>>) : l \in Leaf}
       \cup {Prog("F2b", <<If(Un("!", l), ThenElse[1], ThenElse[2])>>) : l \in Leaf}
       \cup {Prog("F2b", <<If(l, ThenElse[1], <<>>)>>) : l \in Leaf}
CondAtoms == {Bin("<", Var("a"), Var("b")), Bin("==", Var("X"), Num(1)), Var("Y"), Un("!", Var("a")), Bin(">=", Var("s"), Num(300)), Bin("!=", Var("b"), Num(0))}
F2c == {Prog("F2c", <<If(Bin(lop, p, q), ThenElse[1], ThenElse[2])>>) : lop \in {"&&", "||"}, p \in CondAtoms, q \in CondAtoms}
       \cup {Prog("F2c", <<If(Bin(l1, p, Bin(l2, q, r)), ThenElse[1], ThenElse[2])>>) :
               l1 \in {"&&", "||"}, l2 \in {"&&", "||"}, p \in {Var("Y"), Bin("<", Var("a"), Var("b"))},
               q \in {Un("!", Var("a")), Bin("==", Var("X"), Num(1))}, r \in {Bin("!=", Var("b"), Num(0)), Var("Y")}}
       \cup {Prog("F2c", <<If(Bin(l1, Bin(l2, p, q), r), ThenElse[1], ThenElse[2])>>) :
               l1 \in {"&&", "||"}, l2 \in {"&&", "||"}, p \in {Var("Y"), Bin("<", Var("a"), Var("b"))},
               q \in {Un("!", Var("a")), Bin("==", Var("X"), Num(1))}, r \in {Bin("!=", Var("b"), Num(0)), Var("Y")}}

\* F3: loops.  Counters and bounds small; bodies touch c and arr.
Bodies == {<<S(Inc(FALSE, 1, Var("c")))>>, <<S(Asg("+", Var("c"), Var("b")))>>, <<S(Asg("=", Idx("arr", Var("X")), Var("c"))), S(Inc(FALSE, 1, Var("c")))>>}
Ctr == {Var("X"), Var("Y"), Var("a")}
F3a == {Prog("F3a", <<For(Asg("=", i, Num(lo)), Bin(op, i, hi), Inc(FALSE, 1, i), b)>>) :
          i \in Ctr, lo \in {0, 2}, op \in {"<", "!=", "<="}, hi \in {Num(0), Num(3), Num(5), Var("b")}, b \in Bodies}
       \cup {Prog("F3a", <<For(Asg("=", i, Num(hi)), Bin(op, i, Num(lo)), Inc(FALSE, -1, i), b)>>) :
          i \in Ctr, hi \in {4, 7}, op \in {">", "!=", ">="}, lo \in {0, 1}, b \in Bodies}
F3b == {Prog("F3b", <<While(c, b \o <<S(Inc(FALSE, -1, v))>>)>>) :
          v \in {Var("a"), Var("X"), Var("Y")}, c \in {Var("a"), Var("X"), Var("Y"), Bin("!=", Var("a"), Num(0)), Bin(">", Var("X"), Num(1))}, b \in Bodies}
       \cup {Prog("F3b", <<Do(b \o <<S(Inc(FALSE, -1, v))>>, c)>>) :
          v \in {Var("a"), Var("X"), Var("Y")}, c \in {Var("a"), Var("X"), Bin("!=", Var("Y"), Num(0)), Bin(">", Var("a"), Num(1))}, b \in Bodies}
F3c == {Prog("F3c", <<For(Asg("=", Var("X"), Num(0)), Bin("<", Var("X"), Num(6)), Inc(FALSE, 1, Var("X")),
                          <<If(Bin(op, Var("X"), Var("b")), <<jmp>>, <<>>), S(Inc(FALSE, 1, Var("c")))>>)>>) :
          op \in {"==", ">", "<"}, jmp \in {Break, Continue}}
       \cup {Prog("F3c", <<While(Var("a"), <<S(Inc(FALSE, -1, Var("a"))), If(Bin(op, Var("a"), Var("b")), <<jmp>>, <<>>), S(Inc(FALSE, 1, Var("c")))>>)>>) :
          op \in {"==", "<"}, jmp \in {Break, Continue}}
       \cup {Prog("F3c", <<For(Asg("=", Var("X"), Num(0)), Bin("<", Var("X"), Num(3)), Inc(FALSE, 1, Var("X")),
                          <<For(Asg("=", Var("Y"), Num(0)), Bin(op, Var("Y"), Var("b")), Inc(FALSE, 1, Var("Y")), <<S(Inc(FALSE, 1, Var("c")))>>)>>)>>) :
          op \in {"<", "!="}}

\* F3d: 16-bit counters: increment / decrement followed at once by a zero test of the same variable
W16 == {Var("s"), Var("ss"), Idx("sarr", Var("X"))}
F3d == {Prog("F3d", <<S(Inc(pre, dd, w)), t>>) : pre \in BOOLEAN, dd \in {1, -1}, w \in W16,
                    t \in {If(Bin("==", Var("s"), Num(0)), ThenElse[1], ThenElse[2]), If(Var("s"), ThenElse[1], ThenElse[2]), If(Bin("!=", Var("ss"), Num(0)), ThenElse[1], ThenElse[2]),
                           If(Un("!", Var("ss")), ThenElse[1], ThenElse[2])}}
       \cup {Prog("F3d", <<S(Asg(op, w, Num(1))), If(w, ThenElse[1], ThenElse[2])>>) : op \in {"-", "+"}, w \in {Var("s"), Var("ss")}}
       \cup {Prog("F3d", <<Do(<<S(Inc(FALSE, 1, Var("c"))), S(Inc(FALSE, -1, w))>>, w)>>) : w \in {Var("s"), Var("ss")}}
       \cup {Prog("F3d", <<For(None, Bin("!=", w, Num(0)), Inc(FALSE, -1, w), <<S(Inc(FALSE, 1, Var("c")))>>)>>) : w \in {Var("s"), Var("ss")}}
\* F4b: switch inside loops, with break (leaves the switch) and continue (continues the loop)
F4b == UNION {{Prog("F4b", <<For(Asg("=", i, Num(0)), Bin("!=", i, Num(4)), Inc(FALSE, 1, i),
                         <<Switch(e, <<Case(<<0>>, <<j1>>), Case(<<1>>, <<S(Inc(FALSE, 1, Var("b"))), j2>>), Default(<<S(Asg("+", Var("b"), Num(16)))>>)>>), S(Inc(FALSE, 1, Var("c")))>>)>>) :
          e \in {i, Idx("arr", Var("X")), Bin("&", i, Num(1))}, j1 \in {Break, Continue}, j2 \in {Break, Continue}} : i \in {Var("X"), Var("a")}}
       \cup {Prog("F4b", <<Set("a", 3), While(Var("a"), <<S(Inc(FALSE, -1, Var("a"))), Switch(Var("a"), <<Case(<<1>>, <<j1>>), Case(<<2>>, <<S(Inc(FALSE, 1, Var("b"))), Break>>)>>), S(Inc(FALSE, 1, Var("c")))>>)>>) : j1 \in {Break, Continue}}
       \cup {Prog("F4b", <<Set("a", 3), Do(<<S(Inc(FALSE, -1, Var("a"))), If(Bin("==", Var("a"), Var("b")), <<j1>>, <<>>), S(Inc(FALSE, 1, Var("c")))>>, Var("a"))>>) : j1 \in {Break, Continue}}
       \cup {Prog("F4b", <<Set("a", 3), Do(<<S(Inc(FALSE, -1, Var("a"))), Switch(Var("a"), <<Case(<<1>>, <<j1>>), Case(<<2>>, <<S(Inc(FALSE, 1, Var("b"))), j2>>)>>), S(Inc(FALSE, 1, Var("c")))>>, Var("a"))>>) :
               j1 \in {Break, Continue}, j2 \in {Break, Continue}}
       \* the if (c) continue; / if (c) break; shortcuts inside a case, in every kind of loop
       \cup {Prog("F4b", <<Set("a", 3), Do(<<S(Inc(FALSE, -1, Var("a"))), Switch(Var("a"), <<Case(<<1>>, <<If(Var("b"), <<j1>>, <<>>), S(Inc(FALSE, 1, Var("c"))), Break>>), Default(<<S(Inc(FALSE, 1, Var("b")))>>)>>), S(Inc(FALSE, 1, Var("X")))>>, Var("a"))>>) : j1 \in {Break, Continue}}
       \cup {Prog("F4b", <<Set("a", 3), While(Var("a"), <<S(Inc(FALSE, -1, Var("a"))), Switch(Var("a"), <<Case(<<1>>, <<If(Var("b"), <<j1>>, <<>>), S(Inc(FALSE, 1, Var("c"))), Break>>), Default(<<S(Inc(FALSE, 1, Var("b")))>>)>>), S(Inc(FALSE, 1, Var("X")))>>)>>) : j1 \in {Break, Continue}}
       \cup {Prog("F4b", <<For(Asg("=", Var("a"), Num(0)), Bin("!=", Var("a"), Num(3)), Inc(FALSE, 1, Var("a")), <<Switch(Var("a"), <<Case(<<1>>, <<If(Var("b"), <<j1>>, <<>>), S(Inc(FALSE, 1, Var("c"))), Break>>), Default(<<S(Inc(FALSE, 1, Var("b")))>>)>>), S(Inc(FALSE, 1, Var("X")))>>)>>) : j1 \in {Break, Continue}}
\* F4: switch
Scrut == {Var("a"), Var("X"), Var("Y"), Bin("&", Var("a"), Num(3)), Idx("arr", Var("X"))}
F4 == {Prog("F4", <<Switch(e, <<Case(<<0>>, <<Set("c", 10)>> \o brk1), Case(<<1, 2>>, <<Set("c", 20)>> \o brk2), Default(<<Set("b", 30)>>)>>)>>) :
         e \in Scrut, brk1 \in {<<>>, <<Break>>}, brk2 \in {<<>>, <<Break>>}}
      \cup {Prog("F4", <<Switch(e, <<Case(<<1>>, <<Set("c", 10), Break>>), Case(<<200>>, <<S(Inc(FALSE, 1, Var("c")))>>), Case(<<3>>, <<Set("b", 7), Break>>)>>)>>) : e \in Scrut}
      \* several values in the first group, 0 not the first of them
      \cup {Prog("F4", <<Switch(e, <<Case(vs, <<Set("c", 10), Break>>), Case(<<3>>, <<Set("b", 7), Break>>)>> \o dflt)>>) :
               e \in Scrut, vs \in {<<1, 0>>, <<2, 1, 0>>, <<0, 1>>}, dflt \in {<<>>, <<Default(<<Set("b", 30)>>)>>}}
      \* a case 0 that is not the first test, with and without a default
      \cup {Prog("F4", <<Switch(e, <<Case(<<2>>, <<Set("c", 10), Break>>), Case(<<0>>, <<Set("c", 20)>> \o brk1), Case(<<1>>, <<Set("b", 7), Break>>)>> \o dflt)>>) :
               e \in Scrut, brk1 \in {<<>>, <<Break>>}, dflt \in {<<>>, <<Default(<<Set("b", 30)>>)>>}}
      \cup {Prog("F4", <<For(Asg("=", Var("X"), Num(0)), Bin("<", Var("X"), Num(4)), Inc(FALSE, 1, Var("X")),
                         <<Switch(Var("X"), <<Case(<<1>>, <<S(Inc(FALSE, 1, Var("c"))), Break>>), Case(<<2>>, <<S(Inc(FALSE, 1, Var("b")))>>), Default(<<S(Asg("+", Var("c"), Num(10)))>>)>>)>>)>>)}

\* F5: function calls (functions f, g, k, h, w, m2 are declared by the driver's header)
Arg == {Var("a"), Var("b"), Var("X"), Var("Y"), Num(3), Idx("arr", Var("X"))}
CallE == {Call("f", <<x>>) : x \in Arg} \cup {Call("g", <<x, y>>) : x \in Arg, y \in {Var("b"), Num(1), Var("Y")}} \cup {Call("k", <<>>)}
         \cup {Call("ri", <<>>), Call("rd2", <<Num(2)>>), Call("rd2", <<Var("X")>>)}
F5a == {Prog("F5a", <<S(Asg("=", d, c))>>) : d \in {Var("a"), Var("X"), Idx("arr", Var("Y"))}, c \in CallE}
       \cup {Prog("F5a", <<S(Asg("=", d, Bin(op, c, r)))>>) : d \in {Var("a"), Var("Y")}, op \in {"+", "-", "&"}, c \in CallE, r \in {Var("b"), Num(1), Var("X")}}
       \cup {Prog("F5a", <<S(Asg("=", d, Bin(op, r, c)))>>) : d \in {Var("a"), Var("Y")}, op \in {"+", "-", "|"}, c \in CallE, r \in {Var("b"), Num(1), Var("X")}}
F5b == {Prog("F5b", <<S(Call("h", <<>>)), S(Asg("=", Var("b"), c))>>) : c \in CallE}
       \cup {Prog("F5b", <<S(Call("w", <<x>>)), S(Inc(FALSE, 1, Var("c")))>>) : x \in Arg \cup CallE}
       \cup {Prog("F5b", <<If(Bin(op, c, r), ThenElse[1], ThenElse[2])>>) : op \in {"==", "<", ">="}, c \in CallE, r \in {Var("b"), Num(4)}}
       \cup {Prog("F5b", <<S(Asg("=", Var("a"), Call("f", <<Call("f", <<x>>)>>)))>>) : x \in Arg}
       \cup {Prog("F5b", <<S(Asg("=", Var("a"), Call("g", <<Call("f", <<x>>), Call("k", <<>>)>>)))>>) : x \in Arg}
       \cup {Prog("F5b", <<S(Asg("=", Var("a"), Bin(op, Call("f", <<x>>), Call("k", <<>>))))>>) : x \in Arg, op \in {"+", "-"}}
       \cup {Prog("F5b", <<S(Asg("=", Var("a"), Call("m2", <<x>>)))>>) : x \in Arg}

\* F5c: a value is loaded, a call (which leaves other flags behind) follows, and the value is then tested or stored:
\* the generator's flags / register beliefs must not survive the call, whether it is a JSR or an inline expansion
CallS == {S(Call("h", <<>>)), S(Call("w", <<Var("b")>>)), S(Call("w", <<Num(0)>>)), S(Call("z0", <<>>)), S(Asg("=", Var("b"), Call("k", <<>>))), S(Asg("=", Var("b"), Call("f", <<Var("b")>>)))}
TestsOn(r) == {If(r, ThenElse[1], ThenElse[2]), If(Un("!", r), <<Set("sb", 1)>>, <<Set("sb", 2)>>), If(Bin("==", r, Num(0)), <<Set("sb", 1)>>, <<>>),
               S(Asg("=", Var("t"), r)), If(Bin("<", r, Num(3)), <<Set("sb", 1)>>, <<Set("sb", 2)>>)}
F5c == UNION {{Prog("F5c", <<S(Asg("=", r, v)), cl, t>>) : v \in {Var("a"), Idx("arr", Num(2)), Num(0), Num(5)}, cl \in CallS, t \in TestsOn(r)} : r \in {Var("X"), Var("c"), Var("s")}}
\* F5h: the result of a call is stored and then tested: the test relies on the flags the callee left behind (callees whose
\* return expression postpones an increment, or restores an index register after the value was loaded)
RetE == {Call("ri", <<>>), Call("rd2", <<Num(2)>>), Call("rd2", <<Var("b")>>), Call("ra", <<Num(1)>>), Call("ra", <<Var("b")>>), Call("f", <<Num(3)>>), Call("k", <<>>)}
F5h == UNION {{Prog("F5h", <<S(Asg("=", d, c1)), t>>) : c1 \in RetE, t \in TestsOn(d)} : d \in {Var("a"), Var("sb"), Var("X")}}
\* F3f: a 16-bit shift statement (of a variable, of an element indexed by X) between the assignment of a register and its test:
\* the flags are those of the shift
F3f == UNION {{Prog("F3f", <<S(Asg("=", r, v)), S(Asg(sh, w, Num(1))), t>>) : v \in {Var("a"), Num(1)}, sh \in {"<<", ">>"},
          w \in {Idx("sarr", Var("X")), Var("s")}, t \in {If(r, ThenElse[1], ThenElse[2]), If(Un("!", r), <<Set("sb", 1)>>, <<Set("sb", 2)>>), If(Bin("==", r, Num(0)), <<Set("sb", 1)>>, <<>>)}} :
          r \in {Var("X"), Var("c")}}
\* F8i: an element is tested, an element that may be the same one (spelled differently: constant index, X, Y) is modified, and the
\* first is tested again: the second test must see the new value
F8i == UNION {{Prog("F8i", <<Set("X", 1), Set("Y", 1), If(Bin("==", l, Num(3)), <<m, If(Bin("==", l, Num(n2)), <<Set("c", 1)>>, <<Set("c", 2)>>)>>, <<Set("c", 3)>>)>>) : n2 \in {4, 2, 6, 1},
          m \in {S(Inc(FALSE, 1, Idx("arr", Num(1)))), S(Inc(FALSE, 1, Idx("arr", Var("X")))), S(Inc(FALSE, 1, Idx("arr", Var("Y")))), S(Inc(FALSE, -1, Idx("arr", Num(1)))),
                  S(Asg("<<", Idx("arr", Num(1)), Num(1))), S(Asg("<<", Idx("arr", Var("X")), Num(1))), S(Asg("+", Idx("arr", Var("Y")), Num(1))),
                  S(Asg("=", Idx("arr", Num(1)), Num(4))), S(Asg("=", Idx("arr", Var("X")), Num(4))),
                  \* stores that leave the accumulator alone
                  S(Asg("=", Idx("arr", Num(1)), Var("Y"))), S(Asg("=", Idx("arr", Var("X")), Var("Y"))), S(Asg("=", Idx("arr", Var("Y")), Var("X")))}} :
          l \in {Idx("arr", Var("X")), Idx("arr", Num(1)), Idx("arr", Var("Y"))}}
\* F5d: a function with several returns of constants, followed by a constant assignment (a belief held on one return
\* path must not reach the code after the call, in particular once the function is expanded inline)
F5d == {Prog("F5d", <<S(Asg("=", d, Call("r2", <<>>))), S(Asg("=", v, Num(kk)))>>) : d \in {Var("c"), Var("X")}, v \in {Var("b"), Var("Y"), Var("sa")}, kk \in {1, 2, 0}}
       \cup {Prog("F5d", <<S(Asg("=", Var("c"), Call("r3", <<x>>))), S(Asg("=", v, Num(kk)))>>) : x \in {Var("a"), Var("X")}, v \in {Var("b"), Var("X")}, kk \in {7, 9}}
       \cup {Prog("F5d", <<If(Var("b"), <<Set("c", 4)>>, <<>>), S(Asg("=", Var("sb"), Call("sgn", <<x>>))), If(Var("sb"), <<Set("c", 5)>>, <<>>)>>) : x \in {Var("sa"), Var("a"), Num(200)}}
\* F5e: what is known about the carry after a comparison must not survive a call, a subtraction, an addition:
\* guard (comparison) ; something that changes the carry ; an addition or subtraction that needs its own CLC / SEC
CGuard == {Bin("<", Var("a"), Num(10)), Bin(">=", Var("a"), Num(10)), Bin("<", Var("X"), Num(3)), Bin("<", Var("a"), Var("b"))}
CMod == {S(Call("hs", <<>>)), S(Call("h", <<>>)), S(Asg("-", Var("b"), Num(1))), S(Asg("+", Var("b"), Num(200))), Set("b", 1), S(Asg("=", Var("b"), Bin("<", Var("sa"), Num(5))))}
F5e == {Prog("F5e", <<If(g, <<m, S(Asg("=", Var("c"), Bin(op, x, y)))>>, <<S(Asg("=", Var("c"), Bin(op, x, y)))>>)>>) : g \in CGuard, m \in CMod, op \in {"+", "-"}, x \in {Var("a"), Var("X")}, y \in {Num(1), Var("b")}}
       \cup {Prog("F5e", <<While(g, <<m, S(Asg("+", Var("a"), Num(1)))>>)>>) : g \in {Bin("<", Var("a"), Num(3))}, m \in CMod}
\* F5f: comparisons inside (inline) functions, called when the operand's value is known to the optimiser or the carry is not what
\* the comparison would leave
F5f == {Prog("F5f", <<pre, S(Call("cle", <<>>))>>) : pre \in {Set("X", 5), Set("X", 3), Set("X", 0), S(Asg("=", Var("X"), Bin("+", Var("a"), Var("b")))), S(Asg("=", Var("b"), Bin("-", Var("a"), Var("b"))))}}
       \cup {Prog("F5f", <<pre, S(Call("cgt", <<x>>))>>) : pre \in {Set("a", 5), Set("a", 3), S(Asg("=", Var("b"), Bin("+", Var("a"), Var("b")))), S(Asg("=", Var("b"), Bin("-", Var("a"), Var("b"))))}, x \in {Var("a"), Num(5), Num(3), Var("b")}}
       \cup {Prog("F5f", <<Set("X", k), S(Call("cle", <<>>)), S(Asg("=", Var("b"), Var("c"))), Set("a", k), S(Call("cgt", <<Var("a")>>))>>) : k \in {2, 3, 4, 200}}
\* F5g: parameters of different types next to each other (each parameter keeps its own width and signedness)
F5g == {Prog("F5g", <<S(Call("ps", <<x, y>>))>>) : x \in {Var("sa"), Num(200), Var("a")}, y \in {Var("a"), Num(200), Var("sa"), Var("X")}}
       \* the signedness of a function's result (arithmetic shift, sign extension through a signed char variable)
       \cup {Prog("F5g", <<S(Asg("=", d, Bin(">>", Call("sf", <<x>>), Num(n))))>>) : d \in {Var("c"), Var("sb")}, x \in {Var("sa"), Num(200), Var("a")}, n \in {1, 2}}
       \cup {Prog("F5g", <<S(Asg("=", Var("sb"), Call("sf", <<x>>))), S(Asg("=", Var("ss"), Var("sb")))>>) : x \in {Var("sa"), Num(200)}}
\* F6: calls of functions whose bodies contain loops, early returns, switches, locals and further calls
\* (compared variant against variant by C14; these functions have no CSem body)
C6 == {Call("lp", <<x>>) : x \in {Var("b"), Num(3), Var("X")}} \cup {Call("er", <<x>>) : x \in {Var("a"), Num(128), Idx("arr", Var("X"))}}
      \cup {Call("sw", <<x>>) : x \in {Var("a"), Var("X"), Num(1)}} \cup {Call("n2", <<x>>) : x \in {Var("b"), Num(2)}} \cup {Call("n3", <<x>>) : x \in {Var("a"), Var("b")}}
      \cup {Call("swl", <<x>>) : x \in {Var("a"), Num(1), Var("X")}}
F6 == {Prog("F6", <<S(Asg("=", d, c1))>>) : d \in {Var("a"), Var("X"), Idx("arr", Num(1))}, c1 \in C6}
      \cup {Prog("F6", <<S(Asg("=", Var("a"), c1)), S(Asg("=", Var("b"), c2))>>) : c1 \in C6, c2 \in C6}
      \cup {Prog("F6", <<S(Asg("=", Var("a"), Bin(op, c1, r)))>>) : op \in {"+", "&"}, c1 \in C6, r \in {Var("b"), Num(1)}}
      \cup {Prog("F6", <<If(Bin(op, c1, Num(2)), ThenElse[1], ThenElse[2])>>) : op \in {"==", "<"}, c1 \in C6}
      \cup {Prog("F6", <<For(Asg("=", Var("X"), Num(0)), Bin("<", Var("X"), Num(3)), Inc(FALSE, 1, Var("X")), <<S(Asg("+", Var("c"), c1))>>)>>) : c1 \in {Call("sw", <<Var("X")>>), Call("lp", <<Var("X")>>), Call("n2", <<Var("b")>>)}}
      \cup {Prog("F6", <<S(Call("vd", <<x>>)), S(Asg("=", Var("b"), c1))>>) : x \in {Var("a"), Num(0), Var("X")}, c1 \in C6}
      \cup {Prog("F6", <<S(Call("vd", <<c1>>))>>) : c1 \in C6}
      \cup {Prog("F6", <<S(Call("vl", <<x>>)), S(Asg("=", Var("b"), c1))>>) : x \in {Var("a"), Num(3), Var("X")}, c1 \in {Call("swl", <<Var("a")>>), Call("lp", <<Var("b")>>), Call("sw", <<Var("X")>>)}}
      \cup {Prog("F6", <<S(Asg("=", Var("a"), Call("swl", <<x>>))), S(Call("vl", <<Var("a")>>)), S(Asg("=", Var("Y"), Call("swl", <<Var("b")>>)))>>) : x \in {Var("b"), Num(2)}}

\* F7: statement sequences (stale flag / register beliefs across statements)
Pool == {S(Asg("=", Var("a"), Var("b"))), S(Asg("=", Var("X"), Var("a"))), S(Asg("=", Var("Y"), Var("a"))), S(Inc(FALSE, 1, Var("a"))), S(Inc(TRUE, -1, Var("X"))),
         S(Asg("+", Var("s"), Var("a"))), S(Asg("=", Idx("arr", Var("X")), Var("a"))), S(Asg("=", Var("b"), Idx("arr", Var("Y")))),
         S(Asg("<<", Var("s"), Num(1))), S(Asg("-", Var("a"), Num(1))), S(Asg("=", Var("a"), Num(0))), S(Asg("=", Var("s"), Num(0)))}
Tests == {If(Var("a"), ThenElse[1], ThenElse[2]), If(Bin("==", Var("X"), Num(0)), ThenElse[1], ThenElse[2]), If(Bin("<", Var("a"), Var("b")), ThenElse[1], ThenElse[2]),
          If(Var("s"), ThenElse[1], ThenElse[2]), If(Un("!", Var("Y")), ThenElse[1], ThenElse[2]), S(Asg("=", Var("c"), Var("a"))), S(Asg("=", Var("c"), Var("X")))}
F7a == {Prog("F7a", <<p, q>>) : p \in Pool, q \in Tests}
F7b == {Prog("F7b", <<p, q, r>>) : p \in Pool, q \in Pool, r \in Tests}
F7c == {Prog("F7c", <<p, q, r>>) : p \in Pool, q \in Pool, r \in Pool}

\* FW: witnesses of defect classes that the families above deliberately stay out of (known findings)
FW == {Prog("FW", <<S(Asg("=", Var("s"), Bin("<<", Var("a"), Num(1))))>>), Prog("FW", <<S(Asg("=", Var("s"), Bin(">>", Var("b"), Num(1))))>>),
       Prog("FW", <<S(Asg("=", Var("ss"), Un("!", Var("a"))))>>), Prog("FW", <<S(Asg("=", Var("s"), Un("~", Var("s"))))>>),
       Prog("FW", <<S(Asg("=", Var("s"), Bin("<", Var("a"), Var("b"))))>>), Prog("FW", <<S(Asg("=", Var("s"), Call("f", <<Var("b")>>)))>>),
       Prog("FW", <<S(Asg("=", Var("s"), Cond(Bin("<", Var("a"), Num(200)), Num(5), Var("X"))))>>)}
\* FL: local variables, nested blocks and shadowing (lexical scoping).  Every local has a unique name (what
\* CSem sees) and a short C name (what the source says): L("i1","i") and L("i2","i") are two different objects
\* both spelled i.  A reference is resolved by the generator to the innermost declaration in scope.
Decl(n, cn, ct, init) == [k |-> "decl", name |-> n, cname |-> cn, ctype |-> ct, init |-> init]
LV(n, cn) == [k |-> "var", name |-> n, cname |-> cn]
Blk(b) == [k |-> "block", b |-> b]
LProg(body, locals) == [fam |-> "FL", body |-> body, locals |-> locals]
Lc(n, w, sg) == [name |-> n, w |-> w, sg |-> sg]
FL == {LProg(<<Decl("i1", "i", "char", None), S(Asg("=", LV("i1", "i"), e1)), Blk(<<Decl("i2", "i", "char", None), S(Asg("=", LV("i2", "i"), e2)), S(Asg("=", Var("c"), LV("i2", "i")))>>),
               S(Asg("=", Var("b"), LV("i1", "i")))>>, <<Lc("i1", 8, FALSE), Lc("i2", 8, FALSE)>>) : e1 \in {Var("a"), Num(7), Var("X")}, e2 \in {Var("b"), Num(9), Bin("+", Var("a"), Num(1))}}
      \cup {LProg(<<Decl("i1", "i", "char", e1), Decl("j1", "j", "char", e2), S(Asg("=", Var("X"), LV("i1", "i"))), S(Asg("=", Var("Y"), LV("j1", "j")))>>, <<Lc("i1", 8, FALSE), Lc("j1", 8, FALSE)>>) :
               e1 \in {Num(7), Var("a")}, e2 \in {Num(8), Var("b"), Bin("-", Var("a"), Var("b"))}}
      \cup {LProg(<<Decl("i1", "i", "char", None), S(Asg("=", LV("i1", "i"), Var("X"))), If(Var("X"), <<Decl("i2", "i", "char", None), S(Asg("=", LV("i2", "i"), Var("X"))), S(Asg(op, LV("i2", "i"), Num(3)))>>, <<>>),
               S(Asg("=", LV("i1", "i"), Bin("+", LV("i1", "i"), Var("Y")))), S(Asg("=", Var("c"), LV("i1", "i")))>>, <<Lc("i1", 8, FALSE), Lc("i2", 8, FALSE)>>) : op \in {"+", "=", "&"}}
      \cup {LProg(<<Decl("s1", "w", "short", None), S(Asg("=", LV("s1", "w"), e1)), Blk(<<Decl("c1", "w", "char", None), S(Asg("=", LV("c1", "w"), Var("a"))), S(Asg("+", Var("c"), LV("c1", "w")))>>),
               S(Asg("=", Var("s"), LV("s1", "w")))>>, <<Lc("s1", 16, TRUE), Lc("c1", 8, FALSE)>>) : e1 \in {Var("t"), Num(300), Var("a")}}
      \cup {LProg(<<Decl("k1", "k", "char", None), For(Asg("=", LV("k1", "k"), Num(0)), Bin("<", LV("k1", "k"), Num(3)), Inc(FALSE, 1, LV("k1", "k")),
                    <<Decl("t1", "tmp", "char", None), S(Asg("=", LV("t1", "tmp"), Idx("arr", LV("k1", "k")))), S(Asg("+", Var("c"), LV("t1", "tmp")))>>)>>, <<Lc("k1", 8, FALSE), Lc("t1", 8, FALSE)>>)}
      \cup {LProg(<<Decl("a1", "a", "char", None), S(Asg("=", LV("a1", "a"), e1)), S(Asg("=", Var("b"), LV("a1", "a"))), S(Asg("=", Var("c"), Call("shd", <<LV("a1", "a")>>)))>>, <<Lc("a1", 8, FALSE)>>) :
               e1 \in {Num(5), Var("X"), Bin("+", Var("b"), Num(1))}}     \* a local spelled like the global a: the global is untouched
      \* initialisers of locals go through their own expression grammar: every operator class in an initialiser
      \cup {LProg(<<Decl("i1", "i", "char", e1), S(Asg("=", Var("c"), LV("i1", "i")))>>, <<Lc("i1", 8, FALSE)>>) :
               e1 \in {Bin("&&", Var("a"), Var("b")), Bin("||", Var("a"), Var("b")), Bin("&", Var("a"), Var("b")), Bin("|", Var("a"), Num(1)), Bin("<", Var("a"), Var("b")), Bin("==", Var("a"), Num(3)),
                       Un("!", Var("a")), Un("-", Var("a")), Un("~", Var("a")), Bin("<<", Var("a"), Num(1)), Bin(">>", Var("a"), Num(2)), Cond(Var("a"), Var("b"), Num(7)), Call("f", <<Var("a")>>),
                       Idx("arr", Var("X")), Bin("^", Var("a"), Var("X")), Bin("-", Var("a"), Num(1)), Bin("!=", Var("a"), Var("b")), Bin(">=", Var("X"), Num(2))}}
\* F9: operand-kind coverage: every destination kind with every source kind, plain and compound, including
\* Y-indexed arrays of shorts, pointer dereference and pointer indexing (the addressing modes C04/C13 quantify over)
Leaf9 == Leaf \cup {Idx("sarr", Var("Y")), Idx("tab", Var("Y")), Deref("p"), Idx("p", Var("Y")), Idx("arr", Num(0)), Idx("sarr", Num(1))}
Dst9 == Dst \cup {Idx("sarr", Var("Y")), Deref("p"), Idx("p", Var("Y")), Idx("sarr", Num(2)), Var("b"), Idx("sarr", Var("a")), Idx("arr", Var("b"))}
F9 == {Prog("F9", <<S(Asg("=", d, l))>>) : d \in Dst9, l \in Leaf9}
      \cup {Prog("F9", <<S(Asg(op, d, l))>>) : op \in {"+", "&"}, d \in Dst9, l \in Leaf9 \ Leaf}
      \cup {Prog("F9", <<S(Asg(op, d, l))>>) : op \in {"+", "&"}, d \in Dst9 \ Dst, l \in Leaf9}
      \cup {Prog("F9", <<S(Asg(op, d, n))>>) : op \in ShiftOps, d \in Dst9 \ Dst, n \in {Num(1), Num(3)}}
      \cup {Prog("F9", <<If(Bin(op, l, r), ThenElse[1], ThenElse[2])>>) : op \in {"==", "<"}, l \in Leaf9 \ Leaf, r \in {Var("a"), Num(1)}}
      \* elements of an array of signed chars (sign extension into 16 bits, signed shift, negation), by X, Y and constant index
      \cup {Prog("F9", <<S(Asg(op, d, l))>>) : op \in {"=", "+", "-"}, d \in {Var("s"), Var("ss"), Idx("sarr", Var("X"))}, l \in {Idx("sca", Var("X")), Idx("sca", Var("Y")), Idx("sca", Num(1))}}
      \cup {Prog("F9", <<S(Asg("=", d, e))>>) : d \in {Var("sa"), Var("a"), Var("X")},
               e \in UNION {{Bin(">>", l, Num(1)), Un("-", l), Bin("+", l, Var("sb")), l} : l \in {Idx("sca", Var("X")), Idx("sca", Var("Y")), Idx("sca", Num(3))}}}
\* F8: "reload after modify": a register (or the accumulator path) is loaded from v, v is then modified by some
\* statement, and the register is loaded from v again and observed.  Every register belief of the optimiser
\* and every flags / carry belief of the generator must be dropped by the modifier, or the second load is lost.
RegDst == {Var("X"), Var("Y"), Var("c")}
Modified == {Var("a"), Idx("arr", Num(2)), Var("s")}
Modifier(v) == {S(Inc(FALSE, 1, v)), S(Inc(FALSE, -1, v)), S(Inc(TRUE, 1, v)), S(Asg("+", v, Num(1))), S(Asg("-", v, Var("b"))), S(Asg("=", v, Var("b"))),
                S(Asg("<<", v, Num(1))), S(Asg(">>", v, Num(1))), S(Asg("|", v, Num(128))), S(Asg("=", v, Num(0))), S(Asg("=", v, Var("X"))), S(Asg("=", v, Var("Y")))}
                \cup (IF v = Var("a") THEN {S(Call("h", <<>>))} ELSE {})
F8 == UNION {{Prog("F8", <<S(Asg("=", r, v)), m, S(Asg("=", r, v)), S(Asg("=", Var("b"), r))>>) : r \in RegDst, m \in Modifier(v)} : v \in Modified}
      \cup UNION {{Prog("F8", <<S(Asg("=", r, v)), S(Asg("=", Var("t"), r)), m, S(Asg("=", r, v)), S(Asg("=", Idx("arr", Num(5)), r))>>) : r \in {Var("X"), Var("Y")}, m \in Modifier(v)} : v \in {Var("a"), Idx("arr", Num(2))}}
      \cup {Prog("F8", <<S(Asg("=", r, Var("a"))), m, If(Bin("==", r2, Var("a")), ThenElse[1], ThenElse[2])>>) : r \in RegDst, r2 \in {Var("X"), Var("Y")}, m \in Modifier(Var("a"))}
      \cup {Prog("F8", <<S(Asg("=", Var("X"), Num(k))), S(Asg("=", Var("c"), Idx("arr", Var("X")))), mx, S(Asg("=", Var("b"), Idx("arr", Var("X"))))>>) :
               k \in {1, 3}, mx \in {S(Inc(FALSE, 1, Var("X"))), S(Inc(TRUE, -1, Var("X"))), S(Asg("=", Var("X"), Num(2))), S(Asg("=", Idx("arr", Var("X")), Num(9))), S(Asg("=", Var("X"), Var("Y")))}}
      \cup {Prog("F8", <<S(Asg("=", Var("Y"), Num(k))), S(Asg("=", Var("c"), Idx("arr", Var("Y")))), my, S(Asg("=", Var("b"), Idx("arr", Var("Y"))))>>) :
               k \in {1, 3}, my \in {S(Inc(FALSE, 1, Var("Y"))), S(Inc(TRUE, -1, Var("Y"))), S(Asg("=", Var("Y"), Num(2))), S(Asg("=", Idx("arr", Var("Y")), Num(9))), S(Asg("=", Var("Y"), Var("X")))}}
\* F8g: the general form of F8: (register R loaded from L) ; any statement M of a broad pool ; (R loaded from L again) ;
\* observe.  M covers stores through aliases (constant index vs register index vs pointer), register computations
\* through the accumulator, calls, conditionals, loops ending in break, 16-bit operations.
MPool == {S(Asg("=", Idx("arr", Num(1)), Var("Y"))), S(Asg("=", Idx("arr", Num(2)), Var("b"))), S(Asg("=", Idx("arr", Var("X")), Var("b"))), S(Asg("=", Idx("arr", Var("Y")), Var("b"))),
          S(Asg("=", Var("a"), Var("b"))), S(Inc(FALSE, 1, Var("a"))), S(Inc(FALSE, 1, Var("X"))),
          S(Inc(FALSE, 1, Idx("arr", Var("X")))), S(Inc(FALSE, -1, Idx("arr", Var("Y")))), S(Inc(FALSE, 1, Idx("arr", Num(1)))), S(Inc(TRUE, 1, Idx("arr", Num(2)))),
          S(Asg("<<", Idx("arr", Var("X")), Num(1))), S(Asg(">>", Idx("arr", Num(2)), Num(1))), S(Asg("+", Idx("arr", Var("Y")), Num(1))), S(Inc(FALSE, -1, Var("Y"))), S(Asg("=", Var("X"), Var("b"))),
          S(Asg("=", Var("Y"), Bin("+", Var("b"), Var("c")))), S(Asg("=", Var("X"), Bin("&", Var("a"), Num(3)))), S(Asg("=", Var("Y"), Idx("arr", Var("X")))),
          S(Asg("+", Var("s"), Var("a"))), S(Asg("<<", Var("s"), Num(1))), S(Asg("=", Var("b"), Call("f", <<Var("a")>>))), S(Call("h", <<>>)), S(Call("z0", <<>>)),
          If(Var("b"), <<Set("a", 1)>>, <<>>), If(Var("b"), <<Set("X", 2)>>, <<Set("X", 1)>>), If(Bin("<", Var("a"), Var("b")), <<S(Inc(FALSE, 1, Var("Y")))>>, <<>>),
          While(Var("b"), <<S(Inc(FALSE, -1, Var("b")))>>), While(Var("sb"), <<Set("X", 2), Break>>),
          While(Var("sb"), <<If(Var("b"), <<Set("Y", 3), Break>>, <<>>), Set("Y", 1), Break>>), While(Var("sb"), <<If(Var("b"), <<Set("X", 2), Break>>, <<>>), Set("X", 1), Break>>),
          While(Var("sb"), <<If(Var("b"), <<Set("sa", 2), Break>>, <<>>), Set("sa", 1), Break>>), S(Asg("=", Var("sa"), Call("r2", <<>>))), While(Var("sb"), <<If(Var("b"), <<Set("Y", 1), Break>>, <<>>), Set("Y", 3), Break>>),
          For(Asg("=", Var("Y"), Num(0)), Bin("<", Var("Y"), Num(2)), Inc(FALSE, 1, Var("Y")), <<S(Inc(FALSE, 1, Var("sb")))>>),
          S(Asg("=", Deref("p"), Var("b"))), S(Asg("=", Idx("p", Var("Y")), Var("b"))), S(Asg("=", Var("sb"), Idx("arr", Var("X")))), S(Asg("=", Var("sb"), Idx("arr", Var("Y")))),
          S(Asg("=", Var("sa"), Un("-", Var("sa")))), S(Asg("=", Var("a"), Bin("+", Var("a"), Var("b")))), S(Asg("=", Var("sb"), Bin("<", Var("a"), Var("b")))),
          S(Asg("=", Var("X"), Num(1))), S(Asg("=", Var("Y"), Num(1))), S(Asg("=", Var("a"), Num(1))), Switch(Var("b"), <<Case(<<1>>, <<Set("a", 3), Break>>), Default(<<Set("X", 1)>>)>>)}
LPool == {Var("a"), Idx("arr", Var("X")), Idx("arr", Var("Y")), Idx("arr", Num(2)), Idx("arr", Num(1)), Num(1), Num(0), Idx("tab", Var("X")), Deref("p")}
F8g == {Prog("F8g", <<Set("X", 1), Set("Y", 2), S(Asg("=", r, l)), S(Asg("=", Var("t"), r)), m, S(Asg("=", r, l)), S(Asg("=", Var("c"), r))>>) :
          r \in {Var("X"), Var("Y"), Var("c")}, l \in LPool, m \in MPool}
\* F8h: a register receives a value COMPUTED from v in the accumulator (shift, rotate-based signed shift, arithmetic, negation),
\* then v itself: every accumulator operation must drop the belief "A holds v" before a transfer copies it to X or Y
F8h == UNION {{Prog("F8h", <<S(Asg("=", r, e)), S(Asg("=", r, v)), S(Asg("=", Var("b"), r))>>) : r \in {Var("X"), Var("Y"), Var("c")},
                e \in {Bin(">>", v, Num(1)), Bin("<<", v, Num(1)), Bin(">>", v, Num(2)), Bin("+", v, Num(1)), Bin("&", v, Num(3)), Un("-", v), Un("~", v), Bin("^", v, Var("b"))}} :
              v \in {Var("sa"), Var("a"), Idx("arr", Num(1)), Idx("sarr", Num(0))}}
\* FP: C precedence and associativity in statements: three operands and two binary operators WRITTEN WITHOUT PARENTHESES
\* (flat |-> TRUE makes the driver print the node without parentheses); the tree is the one the C grammar prescribes:
\* the tighter operator groups first, equal levels group to the left.  Also unary operators next to binary ones.
CPrec(o) == CASE o \in {"*", "/"} -> 10 [] o \in {"+", "-"} -> 9 [] o \in {"<<", ">>"} -> 8 [] o \in {"<", "<=", ">", ">="} -> 7 [] o \in {"==", "!="} -> 6
              [] o = "&" -> 5 [] o = "^" -> 4 [] o = "|" -> 3 [] o = "&&" -> 2 [] o = "||" -> 1
FBin(op, l, r) == [k |-> "bin", op |-> op, l |-> l, r |-> r, flat |-> TRUE]
FUn(op, e) == [k |-> "un", op |-> op, e |-> e, flat |-> TRUE]
CTree(x, o1, y, o2, z) == IF CPrec(o1) >= CPrec(o2) THEN FBin(o2, FBin(o1, x, y), z) ELSE FBin(o1, x, FBin(o2, y, z))
POps == {"+", "-", "&", "|", "^", "==", "!=", "<", ">=", "&&", "||"}
FP == {Prog("FP", <<S(Asg("=", d, CTree(x, o1, Var("b"), o2, z)))>>) : d \in {Var("c")}, x \in {Var("a"), Num(5)}, z \in {Var("X"), Num(2)}, o1 \in POps, o2 \in POps}
      \cup {Prog("FP", <<S(Asg("=", Var("c"), CTree(Var("a"), o1, Var("b"), sh, Num(n))))>>) : o1 \in {"+", "-", "&", "|", "^", "<", "=="}, sh \in {"<<", ">>"}, n \in {1, 2}}
      \cup {Prog("FP", <<S(Asg("=", Var("c"), CTree(Var("a"), sh, Num(1), o2, Var("b"))))>>) : o2 \in {"+", "-", "&", "|", "^", "<", "=="}, sh \in {"<<", ">>"}}
      \cup {Prog("FP", <<S(Asg("=", Var("c"), FBin(o, FUn(u, Var("a")), Var("b"))))>>) : u \in {"-", "~", "!"}, o \in {"+", "-", "&", "|", "==", "<"}}
      \cup {Prog("FP", <<S(Asg("=", Var("c"), FBin(o, Var("b"), FUn(u, Var("a")))))>>) : u \in {"-", "~", "!"}, o \in {"+", "-", "&", "|", "==", "<"}}
      \cup {Prog("FP", <<If(CTree(Var("a"), o1, Var("b"), o2, Var("X")), <<Set("c", 1)>>, <<Set("c", 2)>>)>>) : o1 \in POps, o2 \in POps}
\* FT: the conditional operator with alternatives of every pair of kinds (unsigned / signed char, register, constants), alone and
\* as operand of a shift, a comparison, an addition; also as condition and with 16-bit destination
TAlt == {Var("a"), Var("sa"), Var("X"), Num(200), Num(1), Idx("arr", Var("Y"))}
TCond == {Var("b"), Bin("<", Var("a"), Var("b"))}
FT == UNION {{Prog("FT", <<S(Asg("=", d, e))>>) : d \in {Var("c"), Var("s"), Var("sb")},
               e \in {Cond(cc, x, y), Bin(">>", Cond(cc, x, y), Num(1)), Bin("<", Cond(cc, x, y), Num(5)), Bin("+", Cond(cc, x, y), Var("b"))}} :
             cc \in TCond, x \in TAlt, y \in TAlt \ {Num(200)}}
      \cup {Prog("FT", <<If(Cond(cc, x, y), <<Set("c", 1)>>, <<Set("c", 2)>>)>>) : cc \in TCond, x \in TAlt, y \in TAlt}
\* F1n: both operands of the top operator are compound (the left result must be parked while the right one is computed)
F1n == {Prog("F1n", <<S(Asg("=", d, Bin(top, Bin(o1, Var("a"), Var("b")), r)))>>) : d \in {Var("c"), Var("X")}, top \in {"+", "-", "&", "|"}, o1 \in {"+", "&"},
          r \in {Bin("|", Var("X"), Num(0)), Bin("+", Var("c"), Var("Y")), Bin("&", Idx("arr", Var("X")), Num(15)), Bin("-", Var("b"), Num(1)), Un("-", Var("b")), Bin("&", Var("s"), Num(255)),
                 Bin("+", Idx("arr", Var("Y")), Idx("arr", Num(1)))}}
       \cup {Prog("F1n", <<If(Bin(rel, Bin("+", Var("a"), Var("b")), Bin("&", Var("c"), Num(15))), ThenElse[1], ThenElse[2])>>) : rel \in {"==", "<", ">="}}
\* F3e: postponed ++ / -- in every place an expression can stand: they must take effect exactly once, after the value was used
\* and before the next statement, loop iteration or call
F3e == {Prog("F3e", <<For(Asg("=", i, Inc(FALSE, dd, Var("b"))), Bin("<", i, Num(6)), Inc(FALSE, 1, i), <<S(Inc(FALSE, 1, Var("c")))>>)>>) : i \in {Var("a"), Var("X")}, dd \in {1, -1}}
       \cup {Prog("F3e", <<While(Inc(FALSE, -1, Var("b")), <<S(Inc(FALSE, 1, Var("c")))>>)>>),
              Prog("F3e", <<Do(<<S(Inc(FALSE, 1, Var("c")))>>, Inc(FALSE, -1, Var("b")))>>),
              Prog("F3e", <<If(Bin("==", Inc(FALSE, 1, Var("a")), Num(3)), <<Set("c", 1)>>, <<Set("c", 2)>>), S(Asg("=", Var("b"), Var("a")))>>),
              Prog("F3e", <<If(Inc(FALSE, -1, Var("a")), <<Set("c", 1)>>, <<Set("c", 2)>>), S(Asg("=", Var("b"), Var("a")))>>),
              Prog("F3e", <<S(Asg("=", Var("c"), Call("f", <<Inc(FALSE, 1, Var("a"))>>))), S(Asg("=", Var("b"), Var("a")))>>),
              Prog("F3e", <<S(Asg("=", Var("c"), Idx("arr", Inc(FALSE, 1, Var("X"))))), S(Asg("=", Var("b"), Idx("arr", Var("X"))))>>),
              Prog("F3e", <<S(Asg("=", Var("c"), Bin("+", Inc(FALSE, 1, Var("a")), Inc(FALSE, -1, Var("b"))))), S(Asg("=", Var("X"), Var("a")))>>),
              Prog("F3e", <<S(Asg("=", Idx("arr", Var("X")), Inc(FALSE, 1, Var("X")))), S(Asg("=", Var("c"), Idx("arr", Num(1))))>>),
              Prog("F3e", <<Switch(Inc(FALSE, 1, Var("a")), <<Case(<<1>>, <<Set("c", 1), Break>>), Default(<<Set("c", 2)>>)>>), S(Asg("=", Var("b"), Var("a")))>>),
              Prog("F3e", <<For(Asg("=", Var("X"), Num(0)), Bin("<", Inc(FALSE, 1, Var("X")), Num(4)), None, <<S(Asg("+", Var("c"), Idx("arr", Var("X"))))>>)>>),
              Prog("F3e", <<S(Asg("=", Var("s"), Inc(FALSE, 1, Var("t")))), S(Asg("=", Var("ss"), Var("t")))>>),
              Prog("F3e", <<S(Comma(Inc(FALSE, 1, Var("a")), Asg("=", Var("b"), Var("a"))))>>),
              \* postponed ++ inside an operand of a 16-bit expression (generated in two passes: the increment must happen once)
              Prog("F3e", <<S(Asg("=", Var("s"), Bin("|", Var("Y"), Bin("<<", Inc(FALSE, 1, Var("X")), Num(8))))), S(Asg("=", Var("c"), Var("X")))>>),
              Prog("F3e", <<S(Asg("=", Var("s"), Bin("<<", Inc(FALSE, 1, Var("a")), Num(8)))), S(Asg("=", Var("c"), Var("a")))>>),
              Prog("F3e", <<S(Asg("=", Var("s"), Bin("+", Var("t"), Inc(FALSE, 1, Var("a"))))), S(Asg("=", Var("c"), Var("a")))>>),
              Prog("F3e", <<S(Asg("+", Var("s"), Inc(FALSE, -1, Var("X")))), S(Asg("=", Var("c"), Var("X")))>>),
              Prog("F3e", <<S(Asg("=", Idx("sarr", Var("X")), Bin("|", Var("a"), Bin("<<", Inc(FALSE, 1, Var("b")), Num(8))))), S(Asg("=", Var("c"), Var("b")))>>),
              Prog("F3e", <<S(Comma(Inc(FALSE, -1, Var("X")), Asg("=", Var("c"), Idx("arr", Var("X")))))>>),
              Prog("F3e", <<For(Comma(Asg("=", Var("X"), Num(0)), Asg("=", Var("c"), Num(0))), Bin("<", Var("X"), Num(4)), Comma(Inc(FALSE, 1, Var("X")), Asg("=", Var("c"), Var("X"))), <<S(Inc(FALSE, 1, Var("b")))>>)>>),
              Prog("F3e", <<S(Asg("=", Var("c"), Comma(Inc(FALSE, 1, Var("a")), Bin("+", Var("a"), Num(1)))))>>),
              Prog("F3e", <<S(Asg("=", Var("c"), Inc(FALSE, 1, Idx("arr", Var("Y"))))), S(Inc(TRUE, 1, Var("Y"))), S(Asg("=", Var("b"), Idx("arr", Var("Y"))))>>)}
\* F7d: a value is stored, the destination is tested at once (what the store leaves in the flags belief must be true of the
\* WHOLE destination, for every destination kind)
F7d == {Prog("F7d", <<S(Asg("=", d, v)), If(t, <<Set("c", 1)>>, <<Set("c", 2)>>)>>) :
          d \in {Var("s"), Var("ss"), Idx("sarr", Var("X")), Idx("sarr", Var("Y")), Idx("sarr", Num(1)), Var("a"), Idx("arr", Var("X")), Var("Y")},
          v \in {Num(5), Num(256), Var("b"), Var("t"), Idx("p", Num(2)), Deref("p"), Idx("arr", Var("b"))}, t \in {"plain", "not", "ne0", "eq0"}}
F7dProg(p) == LET d == p.body[1].e.lhs
                  tt == p.body[2].c
              IN [p EXCEPT !.body[2].c = CASE tt = "plain" -> d [] tt = "not" -> Un("!", d) [] tt = "ne0" -> Bin("!=", d, Num(0)) [] tt = "eq0" -> Bin("==", d, Num(0))]
F7dAll == {F7dProg(p) : p \in F7d}
\* F2d: else-if chains after && / || conditions (what the else branch may assume about the flags differs between the paths that reach it)
F2d == {Prog("F2d", <<If(Bin(lop, p, q), <<Set("X", 1)>>, <<If(r, <<Set("X", 2)>>, <<Set("X", 3)>>)>>)>>) : lop \in {"&&", "||"}, p \in {Var("a"), Bin("==", Var("a"), Num(1))},
          q \in {Var("b"), Bin("<", Var("b"), Num(5))}, r \in {Var("b"), Var("a"), Un("!", Var("b")), Bin("==", Var("b"), Num(0))}}
       \cup {Prog("F2d", <<If(p, <<Set("X", 1)>>, <<If(Bin(lop, q, r), <<Set("X", 2)>>, <<Set("X", 3)>>)>>)>>) : lop \in {"&&", "||"}, p \in {Var("a"), Bin("<", Var("a"), Var("b"))},
          q \in {Var("b"), Var("a")}, r \in {Var("c"), Un("!", Var("a"))}}
       \* the same with the && / || below a negation or below another operator (the else branch is still reached from several tests)
       \cup {Prog("F2d", <<If(Un("!", Bin(lop, p, q)), <<Set("X", 1)>>, <<If(r, <<Set("X", 2)>>, <<Set("X", 3)>>)>>)>>) : lop \in {"&&", "||"}, p \in {Var("a"), Bin("==", Var("a"), Num(1))},
          q \in {Var("b"), Bin("<", Var("b"), Num(5))}, r \in {Var("b"), Var("a"), Un("!", Var("b")), Bin("==", Var("b"), Num(0))}}
       \cup {Prog("F2d", <<If(Bin(l1, Bin(l2, Var("a"), Var("c")), q), <<Set("X", 1)>>, <<If(r, <<Set("X", 2)>>, <<Set("X", 3)>>)>>)>>) : l1 \in {"&&", "||"}, l2 \in {"&&", "||"},
          q \in {Var("b"), Bin("<", Var("b"), Num(5))}, r \in {Var("b"), Var("c"), Un("!", Var("b"))}}
\* F2e: if / else if where the then-branch leaves a carry of its own (subtraction, addition, comparison): what the else branch
\* believes about the carry must come from ITS path
F2e == {Prog("F2e", <<If(g, <<t>>, <<If(Bin(op, Var("a"), k), <<Set("X", 1)>>, <<Set("X", 2)>>)>>)>>) : g \in {Bin("==", Var("a"), Num(0)), Bin("<", Var("a"), Num(2)), Bin(">=", Var("a"), Var("b"))},
          t \in {S(Asg("=", Var("c"), Bin("-", Var("a"), Var("b")))), S(Asg("=", Var("c"), Bin("+", Var("a"), Num(200)))), S(Asg("=", Var("c"), Bin("<", Var("b"), Num(9))))},
          op \in {">", "<=", ">=", "<"}, k \in {Num(1), Var("b")}}
       \cup {Prog("F2e", <<If(Bin("==", v, Num(0)), <<t>>, <<If(Bin(op, v, Num(0)), <<Set("X", 1)>>, <<Set("X", 2)>>)>>)>>) : v \in {Var("sa"), Var("a"), Var("X")},
          t \in {S(Asg("=", Var("c"), Bin("-", Var("a"), Var("b")))), S(Asg("=", Var("c"), Bin("+", Var("a"), Num(200))))}, op \in {">", "<=", ">=", "<"}}
\* FO: plain char objects widened to 16 bits: zero- or sign-extended according to the char-signedness option (the driver
\* compiles each program with -funsigned_char semantics and with -fsigned_char, and tells CSem which)
FO == {Prog("FO", <<S(Asg(op, d, l))>>) : op \in {"=", "+", "-"}, d \in {Var("s"), Var("ss"), Idx("sarr", Var("X"))}, l \in {Var("pc"), Idx("pca", Var("X")), Idx("pca", Num(1)), Idx("pca", Var("Y"))}}
      \cup {Prog("FO", <<S(Asg("=", Var("pc"), Var("a"))), S(Asg("=", Var("ss"), Var("pc")))>>), Prog("FO", <<S(Asg("=", Idx("pca", Var("X")), Var("b"))), S(Asg("=", Var("s"), Idx("pca", Var("X"))))>>)}
\* FK: identifiers that begin with a keyword (elsev, returnv, dov) right where the keyword could stand
FK == {Prog("FK", <<If(g, <<Set("b", 1)>>, <<>>), Set("elsev", 2), S(Asg("=", Var("c"), Var("elsev")))>>) : g \in {Var("a"), Bin("<", Var("a"), Var("b"))}}
      \cup {Prog("FK", <<Set("returnv", 3), S(Inc(FALSE, 1, Var("returnv"))), S(Asg("=", Var("c"), Var("returnv")))>>),
             Prog("FK", <<Set("dov", 2), Do(<<S(Inc(FALSE, -1, Var("dov"))), S(Inc(FALSE, 1, Var("c")))>>, Var("dov"))>>),
             Prog("FK", <<If(Var("a"), <<Set("b", 1)>>, <<Set("elsev", 1)>>), S(Asg("+", Var("returnv"), Var("elsev"))), While(Var("dov"), <<S(Inc(FALSE, -1, Var("dov")))>>)>>),
             Prog("FK", <<Switch(Var("a"), <<Case(<<1>>, <<Set("returnv", 1), Break>>), Default(<<Set("dov", 1)>>)>>), S(Asg("=", Var("elsev"), Bin("+", Var("dov"), Var("returnv"))))>>)}
\* FG: goto.  Labels stand on top-level statements of main (CSem!RunBody); gotos sit at top level, inside if/else, loops,
\* switch cases; backward (loops built from goto) and forward (skips), out of a loop, out of a switch, two labels.
Goto(l) == [k |-> "goto", target |-> l]
Lbl(l, st) == [label |-> l] @@ st
GConds == {Var("a"), Bin("==", Var("a"), Var("b")), Bin("<", Var("X"), Num(3)), Un("!", Var("b"))}
FG == {Prog("FG", <<Set("c", 0), Lbl("lab1", S(Inc(FALSE, 1, Var("c")))), S(Inc(FALSE, -1, Var("a"))), If(g, <<Goto("lab1")>>, <<>>)>>) : g \in {Var("a"), Bin("!=", Var("a"), Var("b")), Bin("<", Var("c"), Num(3))}}
      \cup {Prog("FG", <<If(g, <<Goto("lab2")>>, <<>>), Set("b", 1), Lbl("lab2", Set("c", 2))>>) : g \in GConds}
      \cup {Prog("FG", <<If(g, <<Goto("lab2")>>, <<Set("X", 9)>>), S(Inc(FALSE, 1, Var("b"))), Lbl("lab2", S(Asg("=", Var("c"), Var("b")))), S(Inc(FALSE, 1, Var("c")))>>) : g \in GConds}
      \cup {Prog("FG", <<While(Var("b"), <<S(Inc(FALSE, -1, Var("b"))), If(g, <<Goto("lab2")>>, <<>>), S(Inc(FALSE, 1, Var("c")))>>), Set("X", 1), Lbl("lab2", S(Asg("=", Var("Y"), Var("c"))))>>) : g \in GConds}
      \cup {Prog("FG", <<For(Asg("=", Var("X"), Num(0)), Bin("<", Var("X"), Num(4)), Inc(FALSE, 1, Var("X")), <<If(Bin("==", Idx("arr", Var("X")), Var("a")), <<Goto("lab2")>>, <<>>), S(Inc(FALSE, 1, Var("c")))>>),
                          Set("b", 0), Lbl("lab2", S(Asg("=", Var("Y"), Var("X"))))>>)}
      \cup {Prog("FG", <<Switch(e, <<Case(<<1>>, <<Goto("lab2")>>), Case(<<2>>, <<Set("b", 5), Break>>), Default(<<S(Inc(FALSE, 1, Var("b")))>>)>>), Set("c", 9), Lbl("lab2", S(Inc(FALSE, 1, Var("b"))))>>) : e \in {Var("a"), Var("X"), Bin("&", Var("a"), Num(3))}}
      \cup {Prog("FG", <<If(Var("a"), <<If(Var("b"), <<Goto("lab2")>>, <<Set("c", 1)>>)>>, <<Set("c", 2)>>), Set("X", 3), Lbl("lab2", Set("Y", 4))>>)}
      \cup {Prog("FG", <<Set("c", 0), Lbl("lab1", S(Inc(FALSE, 1, Var("c")))), If(Bin("<", Var("c"), Num(3)), <<Goto("lab1")>>, <<>>), If(g, <<Goto("lab3")>>, <<>>), Set("b", 7), Lbl("lab3", Set("X", 1))>>) : g \in GConds}
      \cup {Prog("FG", <<Set("X", 2), Lbl("lab1", S(Asg("+", Var("c"), Idx("arr", Var("X"))))), S(Inc(FALSE, -1, Var("X"))), If(Bin("!=", Var("X"), Num(255)), <<Goto("lab1")>>, <<>>), S(Asg("=", Var("b"), Var("c")))>>)}
      \cup {Prog("FG", <<Do(<<S(Inc(FALSE, -1, Var("a"))), If(Bin("==", Var("a"), Var("b")), <<Goto("lab2")>>, <<>>), S(Inc(FALSE, 1, Var("c")))>>, Var("a")), Set("c", 0), Lbl("lab2", S(Asg("=", Var("X"), Var("c"))))>>)}
\* F8f: flags beliefs: a constant is stored, something that sets the flags differently follows, the same constant is
\* stored again (so that its load is redundant for the accumulator but not for the flags) and tested at once
FlagMod == {S(Inc(FALSE, 1, Var("X"))), S(Inc(FALSE, -1, Var("Y"))), S(Asg("=", Var("X"), Num(3))), S(Asg("=", Var("Y"), Var("c"))), S(Inc(FALSE, 1, Var("c"))),
            S(Asg("<<", Var("s"), Num(1))), S(Asg("=", Var("X"), Var("c"))), S(Inc(FALSE, -1, Var("sb"))), S(Asg("=", Idx("arr", Var("X")), Var("c")))}
F8f == {Prog("F8f", <<Set("a", kk), m, Set("b", kk), t>>) : kk \in {0, 1}, m \in FlagMod,
                     t \in {If(Var("b"), <<Set("sa", 1)>>, <<Set("sa", 2)>>), If(Un("!", Var("b")), <<Set("sa", 1)>>, <<Set("sa", 2)>>), If(Bin("==", Var("b"), Num(0)), <<Set("sa", 1)>>, <<>>)}}
       \cup {Prog("F8f", <<Do(<<Set("a", kk), m, Set("b", kk)>>, Var("b"))>>) : kk \in {0}, m \in FlagMod}
       \cup {Prog("F8f", <<Set("b", 2), While(Var("b"), <<Set("a", 0), m, Set("b", 0)>>)>>) : m \in FlagMod}
       \* the same for the index registers: a redundant reload of X / Y whose flags the test needs
       \cup UNION {{Prog("F8f", <<S(Asg("=", r, Num(kk))), m, S(Asg("=", r, Num(kk))), t>>) : kk \in {0, 1},
                      m \in {Set("a", 1), Set("a", 0), S(Inc(FALSE, 1, Var("c"))), S(Asg("=", Var("b"), Var("c"))), S(Asg("=", Idx("arr", Num(1)), Var("c")))},
                      t \in {If(r, <<Set("sa", 1)>>, <<Set("sa", 2)>>), If(Un("!", r), <<Set("sa", 1)>>, <<Set("sa", 2)>>), If(Bin("==", r, Num(0)), <<Set("sa", 1)>>, <<>>)}} : r \in {Var("X"), Var("Y")}}
\* FX: explicit hardware-access statements mixed with ordinary code (C18).  PORT1..PORT3 are io cells declared by the driver.
Load(e) == [k |-> "load", e |-> e]
Store(e) == [k |-> "store", e |-> e]
Strobe(n) == [k |-> "strobe", name |-> n]
Sleep(n) == [k |-> "csleep", n |-> n]
Asm(t, eff, n, nm) == [k |-> "asm", text |-> t, eff |-> eff, n |-> n, name |-> nm, size |-> 2]
XPool == {Load(Var("a")), Load(Var("PORT1")), Load(Num(5)), Load(Idx("arr", Var("X"))), Store(Var("b")), Store(Var("PORT2")), Store(Idx("arr", Var("Y"))),
          Strobe("PORT3"), Strobe("PORT1"), Sleep(2), Sleep(5), Asm("NOP", "none", 0, "a"), Asm("LDA #7", "lda", 7, "a"), Asm("STA PORT2", "sta", 0, "PORT2"),
          Asm("INX", "inx", 0, "a"), S(Asg("=", Var("a"), Var("b"))), S(Asg("=", Var("X"), Var("a"))), S(Inc(FALSE, 1, Var("a"))), S(Asg("=", Var("b"), Num(5))),
          If(Var("a"), <<Set("c", 1)>>, <<>>), Sleep(7), Sleep(9), If(Var("X"), <<Set("c", 1)>>, <<Set("c", 2)>>), S(Asg("=", Var("Y"), Num(0)))}
\* the same statements reached through (inline) functions of the driver's library: rdp = load(*PORT1), rda = load(a); store(*PORT2),
\* wrp = store(*PORT2), stb = strobe(PORT3), slp = csleep(7)
XCalls == {S(Call("rdp", <<>>)), S(Call("rda", <<>>)), S(Call("wrp", <<>>)), S(Call("stb", <<>>)), S(Call("slp", <<>>))}
XMix == {Load(Var("PORT1")), Store(Var("PORT2")), Strobe("PORT3"), Sleep(5), S(Asg("=", Var("a"), Num(1))), S(Asg("=", Var("X"), Var("a"))), Load(Var("a"))}
FXC == {Prog("FX", <<p, q>>) : p \in XCalls \cup XMix, q \in XCalls} \cup {Prog("FX", <<p, q>>) : p \in XCalls, q \in XMix}
       \cup {Prog("FX", <<p, q, r>>) : p \in XCalls, q \in XCalls, r \in XCalls}
FX == FXC \cup {Prog("FX", <<p, q>>) : p \in XPool, q \in XPool} \cup {Prog("FX", <<p, q, r>>) : p \in XPool, q \in XPool, r \in XPool}
      \cup {Prog("FX", <<For(Asg("=", Var("Y"), Num(0)), Bin("<", Var("Y"), Num(3)), Inc(FALSE, 1, Var("Y")), <<p, q>>)>>) : p \in XPool, q \in XPool}
      \cup {Prog("FX", <<If(Var("a"), <<p, q>>, <<q>>)>>) : p \in XPool, q \in XPool}
\* FS: csleep(n) for every n, in straight-line contexts (cycle-exact) and in a loop
FS == {[fam |-> "FS", n |-> n, ctx |-> cx, body |-> b] : n \in 0..12, cx \in {"alone", "between", "afterload", "loop"}, b \in {<<>>}}
\* RW: pairs of programs related by a meaning-preserving source transformation (C15)
Pair2(rule, a, b) == [fam |-> "RW", rule |-> rule, body |-> a, body2 |-> b]
RwLeaf == {Var("a"), Var("b"), Var("X"), Var("Y"), Idx("arr", Var("X")), Idx("arr", Num(2)), Num(1), Num(200), Var("s")}
RwDst == {Var("a"), Var("X"), Var("s"), Idx("arr", Var("Y"))}
RwCond == {Bin("<", Var("a"), Var("b")), Bin("==", Var("X"), Num(1)), Var("Y"), Bin(">=", Var("a"), Num(200)), Bin("!=", Var("b"), Idx("arr", Var("X"))), Bin("&&", Var("a"), Var("b"))}
RW == {Pair2("commute", <<S(Asg("=", d, Bin(op, l, r)))>>, <<S(Asg("=", d, Bin(op, r, l)))>>) : d \in RwDst, op \in {"+", "&", "|", "^"}, l \in RwLeaf, r \in RwLeaf}
      \cup {Pair2("compound", <<S(Asg(op, d, r))>>, <<S(Asg("=", d, Bin(op, d, r)))>>) : d \in RwDst, op \in {"+", "-", "&", "|", "^"}, r \in RwLeaf}
      \cup {Pair2("compound", <<S(Asg(op, d, n))>>, <<S(Asg("=", d, Bin(op, d, n)))>>) : d \in {Var("a"), Var("X"), Idx("arr", Var("Y"))}, op \in {"<<", ">>"}, n \in {Num(1), Num(3)}}
      \cup {Pair2("preinc", <<S(Inc(TRUE, dd, d))>>, <<S(Asg(IF dd = 1 THEN "+" ELSE "-", d, Num(1)))>>) : dd \in {1, -1}, d \in RwDst}
      \cup {Pair2("preinc", <<S(Inc(FALSE, dd, d))>>, <<S(Asg(IF dd = 1 THEN "+" ELSE "-", d, Num(1)))>>) : dd \in {1, -1}, d \in RwDst}
      \cup {Pair2("preinc", <<S(Asg("=", x, Inc(TRUE, 1, d)))>>, <<S(Asg("+", d, Num(1))), S(Asg("=", x, d))>>) : x \in {Var("b"), Var("Y")}, d \in {Var("a"), Var("X"), Var("s")}}
      \cup {Pair2("negcond", <<If(c, <<Set("c", 1)>>, <<Set("c", 2)>>)>>, <<If(Un("!", c), <<Set("c", 2)>>, <<Set("c", 1)>>)>>) : c \in RwCond}
      \cup {Pair2("negcond", <<If(c, <<S(Inc(FALSE, 1, Var("a")))>>, <<S(Asg("=", Var("X"), Var("b")))>>)>>, <<If(Un("!", c), <<S(Asg("=", Var("X"), Var("b")))>>, <<S(Inc(FALSE, 1, Var("a")))>>)>>) : c \in RwCond}
      \cup {Pair2("negcond", <<S(Asg("=", r, Var("a"))), If(c, <<Set("c", 1)>>, <<If(r, <<Set("c", 2)>>, <<>>)>>)>>,
                              <<S(Asg("=", r, Var("a"))), If(Un("!", c), <<If(r, <<Set("c", 2)>>, <<>>)>>, <<Set("c", 1)>>)>>) : r \in {Var("X"), Var("sb")}, c \in {Bin("==", Var("Y"), Num(3)), Bin("<", Var("b"), Num(7)), Var("b")}}
      \cup {Pair2("negcond", <<S(Asg("=", r, Var("a"))), If(c, <<If(Un("!", r), <<Set("c", 2)>>, <<Set("c", 3)>>)>>, <<Set("c", 1)>>)>>,
                              <<S(Asg("=", r, Var("a"))), If(Un("!", c), <<Set("c", 1)>>, <<If(Un("!", r), <<Set("c", 2)>>, <<Set("c", 3)>>)>>)>>) : r \in {Var("X"), Var("sb")}, c \in {Bin("!=", Var("Y"), Num(3)), Var("b")}}
      \cup {Pair2("swaprel", <<If(Bin(o[1], l, r), <<Set("c", 1)>>, <<Set("c", 2)>>)>>, <<If(Bin(o[2], r, l), <<Set("c", 1)>>, <<Set("c", 2)>>)>>) :
               o \in {<<"<", ">">>, <<"<=", ">=">>, <<">", "<">>, <<">=", "<=">>}, l \in CmpLeaf, r \in CmpLeaf}
      \cup {Pair2("negcond", <<S(Asg("=", r, Var("a"))), If(c, <<Set("c", 1)>>, <<If(r, <<Set("c", 2)>>, <<>>)>>)>>,
                              <<S(Asg("=", r, Var("a"))), If(Un("!", c), <<If(r, <<Set("c", 2)>>, <<>>)>>, <<Set("c", 1)>>)>>) : r \in {Var("X"), Var("sb")}, c \in {Bin("==", Var("Y"), Num(3)), Bin("<", Var("b"), Num(7)), Var("b")}}
      \cup {Pair2("negcond", <<S(Asg("=", r, Var("a"))), If(c, <<If(Un("!", r), <<Set("c", 2)>>, <<Set("c", 3)>>)>>, <<Set("c", 1)>>)>>,
                              <<S(Asg("=", r, Var("a"))), If(Un("!", c), <<Set("c", 1)>>, <<If(Un("!", r), <<Set("c", 2)>>, <<Set("c", 3)>>)>>)>>) : r \in {Var("X"), Var("sb")}, c \in {Bin("!=", Var("Y"), Num(3)), Var("b")}}
      \cup {Pair2("swaprel", <<S(Asg("=", Var("c"), Bin(o[1], l, r)))>>, <<S(Asg("=", Var("c"), Bin(o[2], r, l)))>>) :
               o \in {<<"<", ">">>, <<"<=", ">=">>}, l \in CmpLeaf, r \in CmpLeaf}
      \cup {Pair2("forwhile", <<For(Asg("=", i, Num(lo)), Bin(op, i, hi), Inc(FALSE, 1, i), b)>>,
                               <<S(Asg("=", i, Num(lo))), While(Bin(op, i, hi), b \o <<S(Inc(FALSE, 1, i))>>)>>) :
               i \in Ctr, lo \in {0, 2}, op \in {"<", "!="}, hi \in {Num(3), Num(5), Var("b")}, b \in Bodies}
      \cup {Pair2("switchif", <<Switch(e, <<Case(<<0>>, <<Set("c", 10), Break>>), Case(<<1, 2>>, <<Set("c", 20), Break>>), Default(<<Set("b", 30)>>)>>)>>,
                               <<If(Bin("==", e, Num(0)), <<Set("c", 10)>>, <<If(Bin("||", Bin("==", e, Num(1)), Bin("==", e, Num(2))), <<Set("c", 20)>>, <<Set("b", 30)>>)>>)>>) :
               e \in {Var("a"), Var("X"), Var("Y"), Idx("arr", Var("X"))}}
      \cup {Pair2("switchif", <<Switch(e, <<Case(<<3>>, <<S(Inc(FALSE, 1, Var("c")))>>), Case(<<200>>, <<Set("b", 7), Break>>), Default(<<Set("b", 9)>>)>>)>>,
                               <<If(Bin("==", e, Num(3)), <<S(Inc(FALSE, 1, Var("c"))), Set("b", 7)>>, <<If(Bin("==", e, Num(200)), <<Set("b", 7)>>, <<Set("b", 9)>>)>>)>>) :
               e \in {Var("a"), Var("X")}}
      \cup {Pair2("regindex", <<Set(r, kk), S(Asg("=", d, Idx("arr", Var(r))))>>, <<Set(r, kk), S(Asg("=", d, Idx("arr", Num(kk))))>>) : r \in {"X", "Y"}, kk \in {0, 2, 7}, d \in {Var("a"), Var("s"), Var("b")}}
      \cup {Pair2("regindex", <<Set(r, kk), S(Asg(op, Idx("arr", Var(r)), v))>>, <<Set(r, kk), S(Asg(op, Idx("arr", Num(kk)), v))>>) : r \in {"X", "Y"}, kk \in {1, 5}, op \in {"=", "+", "|"}, v \in {Var("a"), Num(3)}}
      \cup {Pair2("callbody", <<S(Asg("=", d, Call("f", <<x>>)))>>, <<S(Asg("=", d, Bin("+", x, Num(1))))>>) : d \in {Var("a"), Var("X"), Idx("arr", Var("Y"))}, x \in Arg}
      \cup {Pair2("callbody", <<S(Asg("=", d, Call("g", <<x, y>>)))>>, <<S(Asg("=", d, Bin("-", x, y)))>>) : d \in {Var("a"), Var("Y")}, x \in Arg, y \in {Var("b"), Num(1)}}
      \cup {Pair2("callbody", <<S(Call("h", <<>>)), S(Asg("=", Var("b"), Var("a")))>>, <<S(Inc(FALSE, 1, Var("a"))), S(Asg("=", Var("b"), Var("a")))>>)}
      \cup {Pair2("callbody", <<S(Call("w", <<x>>))>>, <<S(Asg("=", Var("c"), x))>>) : x \in Arg}
AllFams == FO \cup F2e \cup F3f \cup F8i \cup F5h \cup F5g \cup F5f \cup F3e \cup F7dAll \cup F1n \cup F2d \cup FK \cup F5e \cup FT \cup FG \cup FP \cup FW \cup F3d \cup F4b \cup F5d \cup F8f \cup F8h \cup F8g \cup FL \cup F5c \cup F6 \cup F8 \cup F9 \cup F1a \cup F1b \cup F1c \cup F1d \cup F1e \cup F1f \cup F1g \cup F2a \cup F2b \cup F2c \cup F2z \cup F2s
           \cup F3a \cup F3b \cup F3c \cup F4 \cup F5a \cup F5b \cup F7a \cup F7b \cup F7c
Family ==
  CASE Fam = "ALL" -> AllFams [] Fam = "RW" -> RW [] Fam = "FX" -> FX \cup FS
    [] Fam = "F1a" -> F1a [] Fam = "F1b" -> F1b [] Fam = "F1c" -> F1c [] Fam = "F1d" -> F1d
    [] Fam = "F1e" -> F1e [] Fam = "F1f" -> F1f [] Fam = "F1g" -> F1g
    [] Fam = "F2a" -> F2a [] Fam = "F2b" -> F2b [] Fam = "F2c" -> F2c [] Fam = "F2z" -> F2z [] Fam = "F2s" -> F2s
    [] Fam = "F3a" -> F3a [] Fam = "F3b" -> F3b [] Fam = "F3c" -> F3c
    [] Fam = "F4" -> F4 [] Fam = "F5a" -> F5a [] Fam = "F5b" -> F5b
    [] Fam = "F7a" -> F7a [] Fam = "F7b" -> F7b [] Fam = "F7c" -> F7c [] Fam = "FW" -> FW [] Fam = "FL" -> FL [] Fam = "F5c" -> F5c [] Fam = "F6" -> F6 [] Fam = "F8" -> F8 [] Fam = "F8g" -> F8g [] Fam = "FP" -> FP [] Fam = "FG" -> FG [] Fam = "FT" -> FT [] Fam = "F5e" -> F5e [] Fam = "FK" -> FK [] Fam = "F1n" -> F1n [] Fam = "F2d" -> F2d [] Fam = "F7d" -> F7dAll [] Fam = "F3e" -> F3e [] Fam = "F5f" -> F5f [] Fam = "F5g" -> F5g [] Fam = "F5h" -> F5h [] Fam = "F3f" -> F3f [] Fam = "F8i" -> F8i [] Fam = "F2e" -> F2e [] Fam = "FO" -> FO [] Fam = "F8f" -> F8f [] Fam = "F3d" -> F3d [] Fam = "F4b" -> F4b [] Fam = "F5d" -> F5d [] Fam = "F9" -> F9

VARIABLE prog
Init == prog \in Family
Next == UNCHANGED prog
Emit == PrintT("CASE " \o ToJson(prog))
=============================================================================
