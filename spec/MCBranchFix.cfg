SPECIFICATION Spec
CONSTANTS MaxLen = 5
 Kinds = {"BEQ", "BCC", "BMI", "BPL"}
 Sizes = {3, 66, 124}
INVARIANT Terminates
INVARIANT RangeOK
INVARIANT LabelsOK
INVARIANT PathOK
CHECK_DEADLOCK FALSE
