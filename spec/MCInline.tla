------------------------------ MODULE MCInline ------------------------------
(***************************************************************************)
(* Bounded exploration of Inline.tla: every inline-function body f of up to  *)
(* MaxLen lines over a small alphabet (labels, conditional branches, JMP,     *)
(* early returns "JMP .endof", protected and unprotected segments), pushed    *)
(* into callers the way generate_asm.rs push_code does (append_code followed  *)
(* by the label .endofinline<k>, k a counter that grows with every push):     *)
(*   twice      main = push(f,1); push(f,2)                                   *)
(*   nested     g = seg; push(f,1); seg     main = push(g,2); push(g,3)       *)
(* Invariants: labels stay unique, bodies stay closed (every target defined), *)
(* sizes add up, each copy has the shape of the original.                     *)
(***************************************************************************)
EXTENDS Inline, Json
CONSTANTS MaxLen
Alphabet == {Lab(<<"L1">>), Lab(<<"L2">>), Br("BEQ", <<"L1">>, FALSE), Br("BMI", <<"L2">>, TRUE), Br("BNE", <<"L2">>, FALSE), Br("JMP", <<"L1">>, FALSE),
             Br("JMP", <<"endof">>, FALSE), Br("BCC", <<"L1">>, TRUE), Seg(1, 3, FALSE), Seg(2, 2, TRUE)}
VARIABLE f
Init == f = <<>>
Next == Len(f) < MaxLen /\ \E x \in Alphabet : f' = Append(f, x)
Spec == Init /\ [][Next]_f

Push(caller, callee, k) == AppendCode(caller, callee, k) \o <<Lab(<<"endof", k>>)>>
\* a function body is well formed when its labels are unique and every target but .endof is defined
WF(c) == UniqueLabels(c) /\ \A i \in 1..Len(c) : c[i].k = "br" => (c[i].to \in Labels(c) \/ c[i].to = <<"endof">>)
Twice == Push(Push(<<Seg(8, 2, FALSE)>>, f, 1), f, 2)
G == Push(<<Seg(9, 2, FALSE)>>, f, 1) \o <<Seg(7, 1, FALSE), Br("JMP", <<"endof">>, FALSE)>>
Nested == Push(Push(<<>>, G, 2), G, 3)
Slice(c, a, n) == SubSeq(c, a, a + n - 1)
WithEnd(c) == c \o <<Lab(<<"endof">>)>>       \* the original with the place its early returns go to

LabelsOK == WF(f) => (UniqueLabels(Twice) /\ UniqueLabels(Nested))
ClosedOK == WF(f) => (Closed(Twice) /\ Closed(Nested))
SizeOK == WF(f) => Bytes(Twice) = 2 + 2 * Bytes(f)
ShapeOK == WF(f) => /\ SameShape(WithEnd(f), Slice(Twice, 2, Len(f) + 1))
                    /\ SameShape(WithEnd(f), Slice(Twice, 2 + Len(f) + 1, Len(f) + 1))
                    /\ SameShape(WithEnd(G), Slice(Nested, 1, Len(G) + 1))
                    /\ SameShape(WithEnd(G), Slice(Nested, Len(G) + 2, Len(G) + 1))
SomeBody == ~(WF(f) /\ Len(f) = MaxLen /\ \E i \in 1..Len(f) : f[i].k = "br" /\ f[i].to = <<"L2">>)      \* anti-vacuity probe: must be VIOLATED
NoBMI == {"BCC", "BCS", "BEQ", "BNE", "BPL", "JMP"}         \* mutation: BMI forgotten in the list of renamed branches (LabelsOK survives, ClosedOK / ShapeOK must fail)
EmitConf == (WF(f) /\ Len(f) >= 1) => PrintT("CONF " \o ToJson([f |-> f, twice |-> Twice, nested |-> Nested, g |-> G]))
=============================================================================
