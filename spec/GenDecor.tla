------------------------------ MODULE GenDecor ------------------------------
(***************************************************************************)
(* Layer 3 generator for C11 + design-level check of the decoration menu.   *)
(* A decoration is a piece of layout or comment text inserted between two   *)
(* adjacent tokens of a program.  Each decoration is given both as concrete *)
(* text (by name, rendered by the driver) and as the sequence of abstract   *)
(* characters Lexer.tla scans; invariant Neutral states that, placed        *)
(* between two code characters, it contributes no significant character -   *)
(* so the decorated program has the same tokens as the plain one by the     *)
(* rules of C (a block comment ends at its first star-slash whatever it     *)
(* contains, a line comment ends at the end of its line).                   *)
(***************************************************************************)
EXTENDS Lexer, Json
CONSTANTS NProgs, NGaps
D(n, cs) == [name |-> n, chars |-> cs]
Decos == {
  D("space", <<"w">>), D("tab", <<"w">>), D("newline", <<"nl">>), D("crlf", <<"w", "nl">>), D("blank2", <<"nl", "w", "nl">>),
  D("splice", <<"bs", "nl">>),    \* backslash-newline is removed before tokenisation (phase 2 of translation)
  D("splice_crlf", <<"bs", "w", "nl">>),   \* the same in a file with CR-LF line ends
  D("splice2", <<"bs", "nl", "bs", "nl">>),
  D("blk_plain", <<"/", "*", "w", "c", "w", "*", "/">>),
  D("blk_dq", <<"/", "*", "w", "q", "w", "*", "/">>),
  D("blk_sq", <<"/", "*", "w", "s", "w", "*", "/">>),
  D("blk_slsl", <<"/", "*", "w", "/", "/", "w", "c", "w", "*", "/">>),
  D("blk_open", <<"/", "*", "w", "/", "*", "w", "c", "w", "*", "/">>),
  D("blk_define", <<"/", "*", "w", "c", "w", "c", "w", "*", "/">>),
  D("blk_url", <<"/", "*", "w", "c", "/", "/", "c", "/", "*", "c", "w", "*", "/">>),
  D("blk_stars", <<"/", "*", "*", "*", "w", "c", "w", "*", "*", "*", "/">>),
  D("blk_multi", <<"/", "*", "w", "c", "nl", "w", "*", "w", "c", "nl", "w", "*", "/">>),
  D("blk_tight", <<"/", "*", "c", "*", "/">>),
  \* a comment that opens with the three characters slash star slash: its second and third character are not a closer
  D("blk_slash", <<"/", "*", "/", "w", "c", "w", "c", "w", "/", "*", "/">>),
  D("blk_empty", <<"/", "*", "*", "/">>),
  \* the opposite direction: the layout between two tokens that do not need it (not two words, not two operator characters) is removed
  D("tighten", <<>>),
  D("line_plain", <<"/", "/", "w", "c", "nl">>),
  D("line_dq", <<"/", "/", "w", "q", "c", "nl">>),
  D("line_blk", <<"/", "/", "w", "/", "*", "w", "c", "nl">>),
  D("line_end", <<"/", "/", "w", "*", "/", "w", "c", "nl">>),
  D("line_define", <<"/", "/", "c", "w", "c", "nl">>) }
\* the splice is not layout for the scanner above (it works after splicing): it is neutral by phase 2
Neutral == \A d \in Decos : d.name \in {"splice", "splice_crlf", "splice2"} \/ Significant(<<"c">> \o d.chars \o <<"c">>) = <<"c", "c">>
VARIABLES p, g, d
Init == p \in 1..NProgs /\ g \in 1..NGaps /\ d \in Decos
Next == UNCHANGED <<p, g, d>>
Emit == PrintT("CASE " \o ToJson([p |-> p, g |-> g, d |-> d.name]))
=============================================================================
