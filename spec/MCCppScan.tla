----------------------------- MODULE MCCppScan -----------------------------
(* Every text over CppScan!Chars of at most MaxLen characters (one state per text: a text is extended by one character   *)
(* at a time), the requirements of CppScan evaluated on each, and the texts handed to the replay into cpp::process         *)
(* (all of those of at most EmitFullLen characters, a sample of the longer ones).                                          *)
EXTENDS CppScan, Json
CONSTANTS MaxLen, EmitFullLen, EmitMod
VARIABLE text
Init == text = <<>>
Next == Len(text) < MaxLen /\ \E c \in Chars : text' = Append(text, c)
Spec == Init /\ [][Next]_text
TextReq == TextOK(text)
LitReq == LiteralsOK(text)
CommentReq == InComment(text)
LinesReq == LinesOK(text)
Code(c) == CASE c = "a" -> 1 [] c = " " -> 2 [] c = "/" -> 3 [] c = "*" -> 4 [] c = "q" -> 5 [] c = "b" -> 6 [] c = "s" -> 7 [] OTHER -> 8
RECURSIVE Hash(_)
Hash(t) == IF t = <<>> THEN 7 ELSE (Hash(SubSeq(t, 2, Len(t))) * 31 + Code(t[1])) % 1000003
Chosen == Len(text) <= EmitFullLen \/ Hash(text) % EmitMod = 0
EmitConf == Chosen => PrintT("CONF " \o ToJson([text |-> text, out |-> Model(text).out, lits |-> Model(text).lits, err |-> Model(text).err,
                                               incs |-> Model(text).incs, emitted |-> Model(text).emitted, first |-> Model(text).first, last |-> Model(text).last,
                                               wf |-> WellFormed(text), dev |-> Deviates(text), refout |-> Norm(Textbook(text).out), reflits |-> Textbook(text).lits]))
Never == FALSE        \* (CommentSeparates <- Never, BlockBeforeLine <- Never: the scanner before its repair)
\* vacuity probes (each must be violated: the class it names is reached within the bound)
NoDeviation == ~(WellFormed(text) /\ Deviates(text))
NoCommentWithText == ~(WellFormed(text) /\ Model(text).lits # <<>> /\ Find(text, <<"/", "*">>, 1) # 0 /\ Norm(Model(text).out) # <<>>)
=============================================================================
