----------------------------- MODULE MCCppScan -----------------------------
(* Every text over CppScan!Chars of at most MaxLen characters (one state per text: a text is extended by one character   *)
(* at a time), the requirements of CppScan evaluated on each, and the texts handed to the replay into cpp::process         *)
(* (all of those of at most EmitFullLen characters, a sample of the longer ones).                                          *)
EXTENDS CppScan, Json
CONSTANTS MaxLen, EmitFullLen, EmitMod
VARIABLES text, nt              \* nt: number of characters (first generator) or pieces (second generator) of text
Init == text = <<>> /\ nt = 0
Next == Len(text) < MaxLen /\ nt' = nt + 1 /\ \E c \in Chars : text' = Append(text, c)
Spec == Init /\ [][Next]_<<text, nt>>
\* second generator: texts made of at most MaxLen PIECES (longer, structured texts: a string holding a comment marker followed by a
\* splice, a comment glued to a string, ...); nt counts the pieces
Pieces == << <<"a">>, <<" ">>, <<"n">>, <<"b", "n">>, <<"/", "*", "a", "*", "/">>, <<"/", "/", "a">>, <<"q", "/", "/", "q">>, <<"q", "/", "*", "q">>,
             <<"q", "b", "q", "q">>, <<"q", "b", "b", "q">>, <<"s", "a", "s">>, <<"/", "*">>, <<"*", "/">>, <<"/", "/">>, <<"q", "a", "q">>, <<"/">>, <<"*">>, <<"q">>,
             <<"q", "b", "b", "b", "b", "q">>, <<"/", "/", "q">>, <<"b", "b">> >>
PInit == text = <<>> /\ nt = 0
PNext == nt < MaxLen /\ nt' = nt + 1 /\ \E k \in 1..Len(Pieces) : text' = text \o Pieces[k]
PSpec == PInit /\ [][PNext]_<<text, nt>>
TextReq == TextOK(text)
LitReq == LiteralsOK(text)
CommentReq == InComment(text)
LinesReq == LinesOK(text)
Code(c) == CASE c = "a" -> 1 [] c = " " -> 2 [] c = "/" -> 3 [] c = "*" -> 4 [] c = "q" -> 5 [] c = "b" -> 6 [] c = "s" -> 7 [] OTHER -> 8
RECURSIVE Hash(_)
Hash(t) == IF t = <<>> THEN 7 ELSE (Hash(SubSeq(t, 2, Len(t))) * 31 + Code(t[1])) % 1000003
Chosen == Len(text) <= EmitFullLen \/ Hash(text) % EmitMod = 0
EmitConf == Chosen => PrintT("CONF " \o ToJson([text |-> text, out |-> Model(text).out, lits |-> Model(text).lits, err |-> Model(text).err,
                                               incs |-> Model(text).incs, emitted |-> Model(text).emitted, first |-> Model(text).first, last |-> Model(text).last,
                                               wf |-> WellFormed(text), dev |-> Deviates(text), refout |-> Norm(Textbook(text).out), reflits |-> Textbook(text).lits]))
Never == FALSE        \* (CommentSeparates <- Never, BlockBeforeLine <- Never: the scanner before its repair)
PChosen == nt <= EmitFullLen \/ Hash(text) % EmitMod = 0
PEmitConf == PChosen => PrintT("CONF " \o ToJson([text |-> text, out |-> Model(text).out, lits |-> Model(text).lits, err |-> Model(text).err,
                                               incs |-> Model(text).incs, emitted |-> Model(text).emitted, first |-> Model(text).first, last |-> Model(text).last,
                                               wf |-> WellFormed(text), dev |-> Deviates(text), refout |-> Norm(Textbook(text).out), reflits |-> Textbook(text).lits]))
\* vacuity probes (each must be violated: the class it names is reached within the bound)
NoDeviation == ~(WellFormed(text) /\ Deviates(text))
NoCommentWithText == ~(WellFormed(text) /\ Model(text).lits # <<>> /\ Find(text, <<"/", "*">>, 1) # 0 /\ Norm(Model(text).out) # <<>>)
=============================================================================
