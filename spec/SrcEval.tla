------------------------------ MODULE SrcEval ------------------------------
(***************************************************************************)
(* Evaluates the source semantics (CSem) of every case on every input,      *)
(* under both readings of the dialect's typing, and prints one line per     *)
(* (case, input):  SRC {"id":..,"k":..,"st":"ok|amb|ub|div","ex":{..}}      *)
(*   ok  - both readings agree and the source terminates with defined       *)
(*         behaviour: ex is the prescribed final state (observable          *)
(*         variables, X, Y, explicit io accesses, loop/call budget used)    *)
(*   amb - the two readings disagree on this input (not decided)            *)
(*   ub  - the source has no defined meaning on this input                  *)
(*   div - the source does not terminate within its budget                  *)
(* The expectations are consumed by Refine.tla as data.                     *)
(***************************************************************************)
EXTENDS CSem, Json, IOUtils
Cases == ndJsonDeserialize(IOEnv.CASES)
VARIABLES cs, k
Cx(c, md) == [vt |-> c.vt, fs |-> c.fs, md |-> md, dev |-> {}]
Proj(c, st) == [n \in {c.obs[i] : i \in 1..Len(c.obs)} \cup {"X", "Y", "_io"} |-> st[n]]
Outcome(c, inp) ==
  LET p == RunMain(c.body, inp, c.fuel, Cx(c, "P"))
      n == RunMain(c.body, inp, c.fuel, Cx(c, "N"))
  IN IF p["_ub"] = 1 \/ n["_ub"] = 1 THEN [st |-> "ub", ex |-> <<>>, it |-> 0]
     ELSE IF p["_fuel"] = 0 \/ n["_fuel"] = 0 THEN [st |-> "div", ex |-> <<>>, it |-> 0]
     ELSE IF Proj(c, p) # Proj(c, n) THEN [st |-> "amb", ex |-> <<>>, it |-> 0]
     ELSE [st |-> "ok", ex |-> Proj(c, p), it |-> c.fuel - p["_fuel"]]
\* staged choice (case first, then input) so that TLC's workers share the evaluation
Init == cs = 0 /\ k = 0
Next == \/ cs = 0 /\ cs' \in 1..Len(Cases) /\ k' = 0
        \/ cs # 0 /\ k = 0 /\ k' \in 1..Len(Cases[cs].inputs) /\ cs' = cs
Report == k # 0 =>
          LET o == Outcome(Cases[cs], Cases[cs].inputs[k])
          IN PrintT("SRC " \o ToJson([id |-> Cases[cs].id, k |-> k, st |-> o.st, ex |-> o.ex, it |-> o.it]))
=============================================================================
