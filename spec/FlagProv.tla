------------------------------ MODULE FlagProv ------------------------------
(***************************************************************************)
(* Layer 2 (trace validation, implementation -> specification): what the   *)
(* N and Z flags of the 6502 DESCRIBE after a sequence of emitted lines,     *)
(* and whether the code generator's belief about them is justified at the   *)
(* places where it relies on it.                                            *)
(*                                                                          *)
(* Hook H3 records one event each time generate_condition skips the compare *)
(* with zero because `flags_ok(self.flags, operand)` holds: the belief      *)
(* (A, X, Y, a variable, an element indexed by X or Y) and the lines        *)
(* emitted so far for the current function.  The specification consumes     *)
(* the lines one per step and tracks                                         *)
(*   desc   the set of locations whose CURRENT value the N/Z flags reflect  *)
(*          ("A", "X", "Y", or a memory operand as the assembler sees it:   *)
(*          "a", "arr+1", "arr,X", "(p),Y")                                  *)
(*   reach  can control fall into the next line?                             *)
(*   pend   for each label referenced so far by a branch or jump, the meet   *)
(*          (intersection) of desc at those branches                         *)
(* One action per class of line:                                             *)
(*   Load / Transfer / IncDecReg   flags := the loaded or changed value      *)
(*   Store         no flags; the stored-to cell (and everything that may     *)
(*                 alias it) stops being described unless the stored         *)
(*                 register is                                               *)
(*   Modify        INC DEC ASL LSR ROL ROR: flags := the modified operand    *)
(*   Arith         ADC SBC AND ORA EOR PLA: flags := A                       *)
(*   Compare       CMP/CPX/CPY #0 keeps what the register described; any     *)
(*                 other compare, BIT, PLP, JSR, inline assembly: nothing    *)
(*   Branch / Jump contribute desc to their target; JMP RTS RTI end the      *)
(*                 fall-through                                              *)
(*   Label         desc := meet of the fall-through and of the branches      *)
(*                 seen so far that target it (a back edge emitted later is  *)
(*                 not known yet: the result may be too large there - the    *)
(*                 validation is then too lenient, never too strict)         *)
(* At the end of the lines of an event:  Justified == the believed location  *)
(* is in desc.  An unjustified belief is a CANDIDATE (the analysis may fail  *)
(* to see why a belief is true); the check confirms candidates by executing  *)
(* the program on many more inputs (Refine.tla) before it reports anything.  *)
(***************************************************************************)
EXTENDS Integers, Sequences, FiniteSets, TLC, Json, IOUtils

Events == ndJsonDeserialize(IOEnv.USES)
\* Events[e] = [id, want (sequence of acceptable terms for the belief), lines]; line = [k |-> "l"|"i"|"a"|"o", mn, op, base, ind, dx, dy]
\*   base = variable name the operand is built on ("" for none / immediate), ind = indirect operand, dx / dy = operand depends on X / Y

VARIABLES e, i, desc, reach, pend, last        \* last: the verdict on the event just finished
vars == <<e, i, desc, reach, pend, last>>

Regs == {"A", "X", "Y"}
IsMem(t) == t \notin Regs
Branches == {"BEQ", "BNE", "BCC", "BCS", "BMI", "BPL", "BVC", "BVS"}
Line == Events[e].lines[i]

\* the terms of d that a change of register r leaves valid
Without(d, r, ls) == {t \in d : t # r /\ ~(\E j \in 1..Len(ls) : ls[j].k = "i" /\ ls[j].op = t /\ ((r = "X" /\ ls[j].dx) \/ (r = "Y" /\ ls[j].dy)))}
\* does a store through operand line l possibly change the cell named by term t (as used on some earlier line)?
MayAlias(l, t, ls) == IsMem(t) /\ (l.ind \/ \E j \in 1..Len(ls) : ls[j].k = "i" /\ ls[j].op = t /\ (ls[j].ind \/ ls[j].base = l.base))

Effect(l, d, ls) ==
  LET mn == l.mn
      op == l.op
      imm == l.base = "" /\ op # "" /\ ~l.ind
      mem == op # "" /\ ~imm
      src(r) == {r} \cup (IF mem THEN {op} ELSE {})
      store(r) == {t \in d : ~MayAlias(l, t, ls)} \cup (IF r \in d THEN {op} ELSE {})
      xfer(from, to) == {from, to} \cup (IF from \in d THEN {t \in Without(d, to, ls) : IsMem(t)} ELSE {})
  IN CASE mn = "LDA" -> src("A")
       [] mn = "LDX" -> src("X")
       [] mn = "LDY" -> src("Y")
       [] mn = "STA" -> store("A")
       [] mn = "STX" -> store("X")
       [] mn = "STY" -> store("Y")
       [] mn = "TAX" -> xfer("A", "X")
       [] mn = "TAY" -> xfer("A", "Y")
       [] mn = "TXA" -> xfer("X", "A")
       [] mn = "TYA" -> xfer("Y", "A")
       [] mn \in {"INX", "DEX", "TSX"} -> {"X"}
       [] mn \in {"INY", "DEY"} -> {"Y"}
       [] mn \in {"INC", "DEC", "ASL", "LSR", "ROL", "ROR"} -> IF mem THEN {op} ELSE {"A"}
       [] mn \in {"ADC", "SBC", "AND", "ORA", "EOR", "PLA"} -> {"A"}
       [] mn = "CMP" /\ op = "#0" -> IF "A" \in d THEN d ELSE {"A"}        \* compares A with 0: N/Z of A (and of whatever equalled it)
       [] mn = "CPX" /\ op = "#0" -> IF "X" \in d THEN d ELSE {"X"}
       [] mn = "CPY" /\ op = "#0" -> IF "Y" \in d THEN d ELSE {"Y"}
       [] mn \in {"CMP", "CPX", "CPY", "BIT", "PLP", "JSR", "BRK"} -> {}
       [] mn \in {"PHA", "PHP", "CLC", "SEC", "CLD", "SED", "CLI", "SEI", "CLV", "NOP", "TXS"} -> d
       [] OTHER -> {}

Meet(S) == IF S = {} THEN {} ELSE {t \in UNION S : \A d \in S : t \in d}
Contribute(p, lab, d) == IF lab \in DOMAIN p THEN [p EXCEPT ![lab] = @ \cap d] ELSE p @@ (lab :> d)

Init == e = 1 /\ i = 1 /\ desc = {} /\ reach = TRUE /\ pend = <<>> /\ last = [id |-> "", ok |-> TRUE, reach |-> TRUE, desc |-> {}]

Done == e > Len(Events)
\* the lines of the event up to the current one (for the alias and register-dependency questions)
Sofar == SubSeq(Events[e].lines, 1, i)

Branch    == Line.k = "i" /\ Line.mn \in Branches
Jump      == Line.k = "i" /\ Line.mn \in {"JMP", "RTS", "RTI"}
Straight  == Line.k = "i" /\ ~Branch /\ ~Jump                      \* Load, Store, Transfer, Modify, Arith, Compare, ...

StepStraight == /\ Straight
                /\ desc' = Effect(Line, desc, Sofar) /\ UNCHANGED <<reach, pend>>
StepBranch   == /\ Branch
                /\ pend' = Contribute(pend, Line.op, desc) /\ UNCHANGED <<desc, reach>>
StepJump     == /\ Jump
                /\ pend' = IF Line.mn = "JMP" THEN Contribute(pend, Line.op, desc) ELSE pend
                /\ reach' = FALSE /\ UNCHANGED desc
StepLabel    == /\ Line.k = "l"
                /\ LET ins == (IF reach THEN {desc} ELSE {}) \cup (IF Line.op \in DOMAIN pend THEN {pend[Line.op]} ELSE {})
                   IN desc' = Meet(ins)
                /\ reach' = TRUE /\ UNCHANGED pend
StepAsm      == /\ Line.k = "a"                                     \* inline assembly: anything may have happened
                /\ desc' = {} /\ reach' = TRUE /\ UNCHANGED pend
StepOther    == /\ Line.k = "o"                                     \* comments, placeholders
                /\ UNCHANGED <<desc, reach, pend>>

Consume == /\ ~Done /\ i <= Len(Events[e].lines)
           /\ (StepStraight \/ StepBranch \/ StepJump \/ StepLabel \/ StepAsm \/ StepOther)
           /\ i' = i + 1 /\ UNCHANGED <<e, last>>
\* the belief is consulted here
Justified == \E k \in 1..Len(Events[e].want) : Events[e].want[k] \in desc
Consult == /\ ~Done /\ i > Len(Events[e].lines)
           /\ last' = [id |-> Events[e].id, ok |-> Justified, reach |-> reach, desc |-> desc]
           /\ e' = e + 1 /\ i' = 1 /\ desc' = {} /\ reach' = TRUE /\ pend' = <<>>
Next == Consume \/ Consult
Spec == Init /\ [][Next]_vars

\* one line per event, printed when it has been decided
Report == (i = 1 /\ e > 1) => PrintT("USE " \o ToJson(last))
\* desc only ever holds registers and operands that occur in the lines consumed
DescWellFormed == \A t \in desc : t \in Regs \/ \E j \in 1..Len(Events[e].lines) : Events[e].lines[j].k = "i" /\ Events[e].lines[j].op = t
=============================================================================
