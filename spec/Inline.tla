------------------------------- MODULE Inline -------------------------------
(***************************************************************************)
(* Layer 2: AssemblyCode::append_code AS CODED (src/assemble.rs) - how the   *)
(* body of an inline function is copied into its caller - and what C13/C14   *)
(* need from it.                                                             *)
(*                                                                           *)
(* Lines are those of BranchFix.tla: labels [k |-> "lab", name], branches     *)
(* [k |-> "br", mn, to, nb, prot], segments [k |-> "seg", id, nb, prot].      *)
(* A label name is a sequence: <<base>> in a function body as generated,      *)
(* <<base, k1>> after being copied by the inlining numbered k1,               *)
(* <<base, k1, k2>> when that copy is copied again by inlining k2 (nested     *)
(* inlining): the code appends the text "inline<k>" to the name each time.    *)
(* append_code(callee, k):                                                    *)
(*   label l            ->  label l \o <<k>>                                  *)
(*   BCC BCS BEQ BMI BNE BPL JMP with operand t                               *)
(*                      ->  the same mnemonic with operand t \o <<k>>, same   *)
(*                          size, cycles and protection                       *)
(*   anything else      ->  copied unchanged                                  *)
(***************************************************************************)
EXTENDS Integers, Sequences, FiniteSets, TLC

Renamed == {"BCC", "BCS", "BEQ", "BMI", "BNE", "BPL", "JMP"}     \* (overridden only by the mutation demonstration of the self-tests)
Lab(n) == [k |-> "lab", name |-> n]
Br(mn, to, prot) == [k |-> "br", mn |-> mn, to |-> to, nb |-> IF mn = "JMP" THEN 3 ELSE 2, prot |-> prot]
Seg(id, nb, prot) == [k |-> "seg", id |-> id, nb |-> nb, prot |-> prot]

Copy(line, k) ==
  CASE line.k = "lab" -> Lab(line.name \o <<k>>)
    [] line.k = "br" /\ line.mn \in Renamed -> [line EXCEPT !.to = @ \o <<k>>]
    [] OTHER -> line
AppendCode(caller, callee, k) == caller \o [i \in 1..Len(callee) |-> Copy(callee[i], k)]

\* ---- what the properties need ---------------------------------------------
Labels(c) == {c[i].name : i \in {j \in 1..Len(c) : c[j].k = "lab"}}
UniqueLabels(c) == \A i, j \in 1..Len(c) : (c[i].k = "lab" /\ c[j].k = "lab" /\ c[i].name = c[j].name) => i = j
Closed(c) == \A i \in 1..Len(c) : c[i].k = "br" => c[i].to \in Labels(c)            \* every branch target is defined in the body
Bytes(c) == LET RECURSIVE S(_) S(i) == IF i > Len(c) THEN 0 ELSE (IF c[i].k = "lab" THEN 0 ELSE c[i].nb) + S(i + 1) IN S(1)
\* the copy has the shape of the original: same kinds, mnemonics, sizes, segment identities and protection of
\* everything that is not a renamed branch; a branch reaches the copy of the label it reached
LabelIdx(c, l) == {i \in 1..Len(c) : c[i].k = "lab" /\ c[i].name = l}
SameShape(orig, copy) ==
  /\ Len(orig) = Len(copy)
  /\ \A i \in 1..Len(orig) :
       /\ orig[i].k = copy[i].k
       /\ orig[i].k = "seg" => orig[i] = copy[i]
       /\ orig[i].k = "br" => /\ orig[i].mn = copy[i].mn /\ orig[i].nb = copy[i].nb /\ orig[i].prot = copy[i].prot
                              /\ LabelIdx(copy, copy[i].to) = LabelIdx(orig, orig[i].to)      \* same target position
=============================================================================
