------------------------------- MODULE GenLoc -------------------------------
(***************************************************************************)
(* Layer 3 generator + Layer 1 origin rule for C06 (diagnostics name the    *)
(* true source location).  A case is a prefix of line-shifting items, each  *)
(* occupying a known number n of physical lines, followed by one error item *)
(* whose offending token lies on physical line(s) lo..hi of the item; the   *)
(* error item sits in the main file or in an included header.               *)
(* Origin rule: physical line = 1 (prologue) + sum of the prefix items'     *)
(* lines + 1 + offset; a spliced logical line may be reported at any of its *)
(* physical lines.  The expected location is computed here and printed with *)
(* the case; the driver renders the items, checks that the rendering has    *)
(* exactly the line counts stated here, and compiles it.                    *)
(***************************************************************************)
EXTENDS Integers, Sequences, TLC, Json
CONSTANTS MaxPrefix, FullLen, EmitMod      \* every case with at most FullLen prefix items is printed, a fixed 1/EmitMod of the longer ones

P(k, n) == [k |-> k, n |-> n]
PrefixItems == {P("blank", 1), P("slc", 1), P("blk1", 1), P("blk2", 2), P("blk3", 3), P("cmtwrap", 2), P("splice2", 2), P("splice3", 3),
                P("def", 1), P("defspl", 2), P("skip2", 4), P("take1", 3), P("ifdefU", 3), P("use", 1), P("inc3n", 1), P("inc2x", 1), P("incasm", 1),
                \* headers whose last line has no newline and emits nothing: the #endif of an include guard, a comment
                P("inc_guard", 1), P("inc_cmt", 1),
                \* a header whose last line is itself an #include of a file without final newline (the outer one with and without its own)
                P("inc_nest", 1), P("inc_nestn", 1)}
Er(k, n, lo, hi) == [k |-> k, n |-> n, lo |-> lo, hi |-> hi]
ErrorItems == {Er("hash_error", 1, 0, 0), Er("unknown_dir", 1, 0, 0), Er("unterminated", 1, 0, 0), Er("endif", 1, 0, 0), Er("noinclude", 1, 0, 0),
               Er("pest", 1, 0, 0), Er("pest_spliced", 2, 0, 1), Er("unknown_id", 3, 1, 1), Er("dupvar", 2, 1, 1), Er("break_outside", 3, 1, 1),
               Er("unknown_func", 3, 1, 1), Er("too_many_args", 4, 2, 2), Er("subscript_scalar", 4, 2, 2), Er("bad_init", 1, 0, 0),
               Er("continue_outside", 3, 1, 1), Er("wrong_return", 3, 1, 1),
               \* the same with the offending token in column 1 of its line
               Er("unknown_id0", 3, 1, 1), Er("unknown_func0", 3, 1, 1), Er("break_outside0", 3, 1, 1), Er("subscript_scalar0", 4, 2, 2),
               Er("too_many_args0", 4, 2, 2), Er("wrong_return0", 3, 1, 1), Er("pest0", 2, 1, 1),
               \* errors raised by the #if / #elif expression evaluator (they take the file name from the preprocessor's context)
               Er("if_undef", 1, 0, 0), Er("elif_undef", 3, 1, 1), Er("if_trailing", 1, 0, 0),
               \* errors raised by the code generator through compiler_error (Error::Compiler)
               Er("cond_partial", 4, 2, 2), Er("cond_partial0", 4, 2, 2), Er("arith_partial", 4, 2, 2), Er("arith_partial0", 4, 2, 2),
               \* an error located at the first token of a declaration (with where = "top": at offset 0 of the whole text)
               Er("complex_type", 1, 0, 0), Er("complex_local", 3, 1, 1), Er("complex_param", 3, 1, 1),
               \* break / continue where only one of them is allowed: continue inside a switch that is not inside a loop
               Er("continue_in_switch", 5, 2, 2), Er("continue_in_switch0", 5, 2, 2)}

RECURSIVE Sum(_, _)
Sum(s, i) == IF i > Len(s) THEN 0 ELSE s[i].n + Sum(s, i + 1)

VARIABLES prefix, err, where, crlf, done
vars == <<prefix, err, where, crlf, done>>
Init == prefix = <<>> /\ err = Er("none", 0, 0, 0) /\ where = "" /\ crlf = FALSE /\ done = FALSE
Next == /\ ~done
        /\ \/ /\ Len(prefix) < MaxPrefix /\ \E it \in PrefixItems : prefix' = Append(prefix, it)
              /\ UNCHANGED <<err, where, crlf, done>>
           \/ /\ \E e \in ErrorItems, w \in {"main", "hdr"} \cup (IF prefix = <<>> THEN {"top"} ELSE {}), c \in BOOLEAN : err' = e /\ where' = w /\ crlf' = c
              /\ done' = TRUE /\ UNCHANGED prefix
Spec == Init /\ [][Next]_vars

\* first physical line of the final item in the main file (line 1 is the prologue)
MainLine == 1 + Sum(prefix, 1) + 1
HdrFill == 2          \* the header holding the error item starts with two filler lines
Expected ==
  IF where = "top"     \* the error item is the very first text of main.c (no prologue line)
  THEN [file |-> "main.c", lo |-> 1 + err.lo, hi |-> 1 + err.hi, incl |-> FALSE, inclLine |-> 0]
  ELSE IF where = "main"
  THEN [file |-> "main.c", lo |-> MainLine + err.lo, hi |-> MainLine + err.hi, incl |-> FALSE, inclLine |-> 0]
  ELSE [file |-> "errh.h", lo |-> HdrFill + 1 + err.lo, hi |-> HdrFill + 1 + err.hi, incl |-> TRUE, inclLine |-> MainLine]
Emit == (done /\ (Len(prefix) <= FullLen \/ (Sum(prefix, 1) * 7 + Len(prefix) + err.n * 3 + err.lo) % EmitMod = 0)) => PrintT("CASE " \o ToJson([prefix |-> prefix, err |-> err, where |-> where, crlf |-> crlf, expected |-> Expected]))
=============================================================================
