------------------------------ MODULE GenGraph ------------------------------
(***************************************************************************)
(* Layer 3 generator for C12: acyclic call graphs over main, f1, f2, f3     *)
(* (every function may call the later ones), at most one call site per      *)
(* (caller, callee) pair, each in a syntactic position; plus attributes     *)
(* (which functions are inline, an interrupt handler with its own call, an  *)
(* unused function, prototypes first).                                      *)
(***************************************************************************)
EXTENDS Integers, Sequences, TLC, Json
CONSTANT Positions
Pairs == {<<0, 1>>, <<0, 2>>, <<0, 3>>, <<1, 2>>, <<1, 3>>, <<2, 3>>}
Attrs == {"plain", "inl3", "inl23", "inl123", "isr", "isr2", "unused", "proto", "isr_inl3"}
VARIABLES site, attr
Init == site \in [Pairs -> Positions \cup {"none"}] /\ attr \in Attrs
Next == UNCHANGED <<site, attr>>
Emit == PrintT("CASE " \o ToJson([sites |-> [i \in 1..6 |-> LET p == CHOOSE q \in Pairs : (q[1] * 3 + q[2] - (q[1] * (q[1] + 1)) \div 2) = i IN
                                                     [from |-> p[1], to |-> p[2], pos |-> site[p]]], attr |-> attr]))
=============================================================================
