------------------------------ MODULE MacroRef ------------------------------
(***************************************************************************)
(* Layer 1: token-level macro expansion, restricted to what C08 states:     *)
(* object-like and function-like macros, whole-identifier matching,         *)
(* positional substitution of arguments that may contain nested             *)
(* parentheses, commas inside them and further macro calls, bodies using    *)
(* previously defined macros, string literals opaque, #undef.               *)
(* (No # / ## operators, no variadics, no recursive macros.)                *)
(*                                                                          *)
(* A text is a sequence of tokens (strings).  defs is the sequence of       *)
(* active definitions [name, fn, params, body].                             *)
(***************************************************************************)
EXTENDS Integers, Sequences, TLC

Names(defs) == {defs[i].name : i \in 1..Len(defs)}
Def(n, defs) == defs[CHOOSE i \in 1..Len(defs) : defs[i].name = n /\ \A j \in (i + 1)..Len(defs) : defs[j].name # n]

\* Parse the arguments of a call whose "(" is at position i - 1: returns [ok, args, next]
RECURSIVE Args(_, _, _, _, _)
Args(ts, i, depth, cur, acc) ==
  IF i > Len(ts) THEN [ok |-> FALSE, args |-> <<>>, next |-> i]
  ELSE LET t == ts[i] IN
       IF t = ")" /\ depth = 0 THEN [ok |-> TRUE, args |-> Append(acc, cur), next |-> i + 1]
       ELSE IF t = "," /\ depth = 0 THEN Args(ts, i + 1, 0, <<>>, Append(acc, cur))
       ELSE Args(ts, i + 1, IF t = "(" THEN depth + 1 ELSE IF t = ")" THEN depth - 1 ELSE depth, Append(cur, t), acc)

RECURSIVE Subst(_, _, _)
Subst(body, params, args) ==
  IF body = <<>> THEN <<>>
  ELSE LET t == Head(body)
           hit == {i \in 1..Len(params) : params[i] = t}
       IN (IF hit = {} THEN <<t>> ELSE args[CHOOSE i \in hit : TRUE]) \o Subst(Tail(body), params, args)

\* Expansion: find the first applicable macro use, rewrite, rescan (terminates for non-recursive definitions)
RECURSIVE Expand(_, _, _)
Expand(ts, defs, fuel) ==
  IF ts = <<>> \/ fuel = 0 THEN ts
  ELSE LET t == Head(ts) IN
    IF t \notin Names(defs) THEN <<t>> \o Expand(Tail(ts), defs, fuel)
    ELSE LET d == Def(t, defs) IN
      IF ~d.fn THEN Expand(d.body \o Tail(ts), defs, fuel - 1)
      ELSE IF Len(ts) >= 2 /\ ts[2] = "("
           THEN LET p == Args(ts, 3, 0, <<>>, <<>>)
                    \* F() with no parameter: one empty argument stands for none
                    args == IF Len(d.params) = 0 /\ p.ok /\ p.args = <<<<>>>> THEN <<>> ELSE p.args
                IN IF p.ok /\ Len(args) = Len(d.params)
                   THEN Expand(Subst(d.body, d.params, args) \o SubSeq(ts, p.next, Len(ts)), defs, fuel - 1)
                   ELSE <<t>> \o Expand(Tail(ts), defs, fuel)
           ELSE <<t>> \o Expand(Tail(ts), defs, fuel)

\* process a sequence of directives (define / undef) into the active definition list
RECURSIVE Active(_, _, _)
Active(ds, i, acc) ==
  IF i > Len(ds) THEN acc
  ELSE IF ds[i].k = "undef" THEN Active(ds, i + 1, SelectSeq(acc, LAMBDA d : d.name # ds[i].name))
  ELSE Active(ds, i + 1, Append(acc, [name |-> ds[i].name, fn |-> ds[i].fn, params |-> ds[i].params,
                                      \* a body is stored expanded by the macros defined before it
                                      body |-> Expand(ds[i].body, acc, 50)]))

D(n, b) == [k |-> "define", name |-> n, fn |-> FALSE, params |-> <<>>, body |-> b]
F(n, ps, b) == [k |-> "define", name |-> n, fn |-> TRUE, params |-> ps, body |-> b]
\* A -D option is NAME or NAME=VALUE (its text given as tokens <<NAME>> or <<NAME, "=", value tokens...>>): it is split at
\* the FIRST "=" only, and behaves like "#define NAME VALUE" at the top of the source; VALUE defaults to 1
DOptDefine(opt) == IF Len(opt) = 1 THEN D(opt[1], <<"1">>) ELSE D(opt[1], SubSeq(opt, 3, Len(opt)))
ASSUME Expand(<<"N", "+", "N1", "+", "\"N\"">>, Active(<<D("N", <<"5">>)>>, 1, <<>>), 50) = <<"5", "+", "N1", "+", "\"N\"">>
ASSUME Expand(<<"G", "(", "(", "1", ",", "2", ")", ",", "F", "(", "N", ")", ")">>,
              Active(<<D("N", <<"5">>), F("F", <<"x">>, <<"(", "x", "*", "2", ")">>), F("G", <<"x", "y">>, <<"x", "-", "y">>)>>, 1, <<>>), 50)
       = <<"(", "1", ",", "2", ")", "-", "(", "5", "*", "2", ")">>
ASSUME Expand(<<"F">>, Active(<<F("F", <<"x">>, <<"x">>)>>, 1, <<>>), 50) = <<"F">>
ASSUME Expand(<<"H", "(", ")">>, Active(<<F("H", <<>>, <<"7">>)>>, 1, <<>>), 50) = <<"7">>
ASSUME Expand(<<"W">>, Active(<<D("N", <<"5">>), D("W", <<"(", "N", "+", "1", ")">>), [k |-> "undef", name |-> "N"]>>, 1, <<>>), 50) = <<"(", "5", "+", "1", ")">>
ASSUME Expand(<<"N">>, Active(<<D("N", <<"5">>), [k |-> "undef", name |-> "N"]>>, 1, <<>>), 50) = <<"N">>
=============================================================================
