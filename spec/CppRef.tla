------------------------------- MODULE CppRef -------------------------------
(***************************************************************************)
(* Reference semantics of conditional compilation (C07).  Layer 1.          *)
(*                                                                          *)
(* A source is a sequence of items:                                         *)
(*   text | define (of macro Z) | undef (of Z) | error | include | cmtdir   *)
(*   if c | ifdef n | ifndef n | elif c | else | endif                      *)
(* Conditional groups form a tree.  An item is ACTIVE iff in every          *)
(* enclosing group the branch containing it is the selected one; the        *)
(* selected branch of a group is the first whose condition holds, else      *)
(* #else.  Conditions are evaluated in the macro environment at that point  *)
(* of the active text; directives in unselected regions have no effect.     *)
(* Run returns the set of kept text/include items, whether Z is defined at  *)
(* the end, and the index of the first active #error (0 if none).           *)
(***************************************************************************)
EXTENDS Integers, Sequences, FiniteSets

\* Truth of an #if/#elif expression.  A = 1 and B = 0 (given by -D), C = 1 (defined in the source)
Truth(c) == CASE c = "0" -> FALSE [] c = "1" -> TRUE [] c = "A" -> TRUE [] c = "!A" -> FALSE [] c = "B" -> FALSE
              [] c = "!B" -> TRUE [] c = "A == B" -> FALSE [] c = "A == 1" -> TRUE [] c = "C" -> TRUE [] c = "!!B" -> FALSE
              [] c = "B == 0" -> TRUE [] c = "!A == B" -> TRUE
\* Is macro n defined?  z = current status of Z; A, B, C always; U never
Defined(n, z) == CASE n = "Z" -> z [] n \in {"A", "B", "C"} -> TRUE [] n = "U" -> FALSE

\* frames: [par |-> enclosing region active, taken |-> a branch of this group was already selected, cur |-> this branch selected]
RECURSIVE Run(_, _, _, _, _)
Run(s, i, fr, z, kept) ==
  IF i > Len(s) THEN [kept |-> kept, z |-> z, err |-> 0] ELSE
  LET it == s[i]
      active == fr = <<>> \/ (fr[Len(fr)].par /\ fr[Len(fr)].cur)
      top == fr[Len(fr)]
      rest == SubSeq(fr, 1, Len(fr) - 1)
      open(t) == Run(s, i + 1, Append(fr, [par |-> active, taken |-> t, cur |-> t]), z, kept)
  IN
  CASE it.k \in {"text", "include"} -> Run(s, i + 1, fr, z, IF active THEN kept \cup {i} ELSE kept)
    [] it.k = "define" -> Run(s, i + 1, fr, IF active THEN TRUE ELSE z, kept)
    [] it.k = "undef"  -> Run(s, i + 1, fr, IF active THEN FALSE ELSE z, kept)
    \* a block comment whose lines look like directives (#else, #define Z, #endif): a comment is a comment wherever it stands
    [] it.k = "cmtdir" -> Run(s, i + 1, fr, z, kept)
    [] it.k = "error"  -> (IF active THEN [kept |-> kept, z |-> z, err |-> i] ELSE Run(s, i + 1, fr, z, kept))
    [] it.k = "if"     -> open(active /\ Truth(it.c))
    [] it.k = "ifdef"  -> open(active /\ Defined(it.c, z))
    [] it.k = "ifndef" -> open(active /\ ~Defined(it.c, z))
    [] it.k = "elif"   -> (LET t == top.par /\ ~top.taken /\ Truth(it.c) IN
                           Run(s, i + 1, Append(rest, [par |-> top.par, taken |-> top.taken \/ t, cur |-> t]), z, kept))
    [] it.k = "else"   -> (LET t == top.par /\ ~top.taken IN
                           Run(s, i + 1, Append(rest, [par |-> top.par, taken |-> TRUE, cur |-> t]), z, kept))
    [] it.k = "endif"  -> Run(s, i + 1, rest, z, kept)

Outcome(s) == Run(s, 1, <<>>, FALSE, {})
=============================================================================
