---------------------------- MODULE MCM6502Self ----------------------------
(* Self-tests of M6502/Enc6502: hand-derived vectors as ASSUMEs.  A failure here is a defect of  *)
(* the oracle and is reported as a tool error (exit 2), never as a violation of the compiler.    *)
EXTENDS M6502, TLC

I(op, syn, a) == [op |-> op, syn |-> syn, a |-> a, t |-> 0]
J(op, t) == [op |-> op, syn |-> "label", a |-> 0, t |-> t]
Ram == <<[lo |-> 0, hi |-> 255, kind |-> "ram", delta |-> 0],
         [lo |-> 4096, hi |-> 4223, kind |-> "wrport", delta |-> 0],
         [lo |-> 4224, hi |-> 4351, kind |-> "rdport", delta |-> -128],
         [lo |-> 61440, hi |-> 65535, kind |-> "rom", delta |-> 0],
         [lo |-> 768, hi |-> 783, kind |-> "io", delta |-> 0]>>
Mem0 == [a \in (128..143) \cup (4096..4099) \cup {61440} \cup (768..770) |-> 0]
M0(a, c) == Machine(1, a, 0, 0, c, 0, 0, 0, Mem0)
R(code, m) == Run(m, [code |-> code, regions |-> Ram], 100)
Fl(m) == <<m.C, m.Z, m.N, m.V>>

\* ADC: 0x50+0x50 = 0xA0, V set, C clear, N set
ASSUME LET m == R(<<I("ADC", "imm", 80), I("RTS", "none", 0)>>, M0(80, 0)) IN m.A = 160 /\ Fl(m) = <<0, 0, 1, 1>> /\ m.halted
\* ADC: 0xD0+0x90 = 0x160 -> 0x60, C set, V set
ASSUME LET m == R(<<I("ADC", "imm", 144)>>, M0(208, 0)) IN m.A = 96 /\ Fl(m) = <<1, 0, 0, 1>>
\* ADC with carry in: 0xFF + 0 + 1 = 0, C, Z
ASSUME LET m == R(<<I("ADC", "imm", 0)>>, M0(255, 1)) IN m.A = 0 /\ Fl(m) = <<1, 1, 0, 0>>
\* SBC: 0x50 - 0xF0 (C=1) = 0x60, borrow -> C=0, V=0
ASSUME LET m == R(<<I("SBC", "imm", 240)>>, M0(80, 1)) IN m.A = 96 /\ Fl(m) = <<0, 0, 0, 0>>
\* SBC: 0x50 - 0xB0 = 0xA0, C=0, V=1, N=1
ASSUME LET m == R(<<I("SBC", "imm", 176)>>, M0(80, 1)) IN m.A = 160 /\ Fl(m) = <<0, 0, 1, 1>>
\* SBC with borrow in: 5 - 3 - 1 = 1, C=1
ASSUME LET m == R(<<I("SBC", "imm", 3)>>, M0(5, 0)) IN m.A = 1 /\ m.C = 1
\* CMP: A<v: C=0,N from diff ; A=v: C=1,Z=1 ; A>v: C=1
ASSUME LET m == R(<<I("CMP", "imm", 10)>>, M0(5, 1)) IN Fl(m) = <<0, 0, 1, 0>> /\ m.A = 5
ASSUME LET m == R(<<I("CMP", "imm", 5)>>, M0(5, 0)) IN Fl(m) = <<1, 1, 0, 0>>
ASSUME LET m == R(<<I("CMP", "imm", 1)>>, M0(200, 0)) IN Fl(m) = <<1, 0, 1, 0>>
\* shifts
ASSUME LET m == R(<<I("ASL", "none", 0)>>, M0(129, 0)) IN m.A = 2 /\ m.C = 1
ASSUME LET m == R(<<I("ROL", "none", 0)>>, M0(129, 1)) IN m.A = 3 /\ m.C = 1
ASSUME LET m == R(<<I("LSR", "none", 0)>>, M0(3, 1)) IN m.A = 1 /\ m.C = 1 /\ m.N = 0
ASSUME LET m == R(<<I("ROR", "none", 0)>>, M0(2, 1)) IN m.A = 129 /\ m.C = 0 /\ m.N = 1
\* 16-bit shift chain on memory: $0180 << 1 = $0300
ASSUME LET m == R(<<I("LDA", "imm", 128), I("STA", "plain", 130), I("LDA", "imm", 1), I("STA", "plain", 131),
                    I("ASL", "plain", 130), I("ROL", "plain", 131)>>, M0(0, 0))
       IN m.mem[130] = 0 /\ m.mem[131] = 3 /\ m.C = 0
\* INC/DEC memory wrap and flags
ASSUME LET m == R(<<I("DEC", "plain", 130)>>, M0(0, 0)) IN m.mem[130] = 255 /\ m.N = 1 /\ m.Z = 0
ASSUME LET m == R(<<I("LDA", "imm", 255), I("STA", "plain", 130), I("INC", "plain", 130)>>, M0(0, 0)) IN m.mem[130] = 0 /\ m.Z = 1
\* index registers, zero-page wrap, absolute,Y on a zero-page address does not wrap
ASSUME LET m == R(<<I("LDX", "imm", 3), I("LDA", "imm", 77), I("STA", "x", 130), I("INX", "none", 0), I("DEX", "none", 0),
                    I("LDY", "x", 130)>>, M0(0, 0)) IN m.mem[133] = 77 /\ m.Y = 77 /\ m.X = 3
ASSUME ResolveMode("LDA", "y", 130) = "absy"
\* indirect indexed: pointer at 132/133 -> 136, Y=2 -> 138
ASSUME LET m == R(<<I("LDA", "imm", 136), I("STA", "plain", 132), I("LDA", "imm", 0), I("STA", "plain", 133),
                    I("LDY", "imm", 2), I("LDA", "imm", 99), I("STA", "indy", 132), I("LDA", "imm", 0), I("LDA", "indy", 132), I("RTS", "none", 0)>>, M0(0, 0))
       IN m.mem[138] = 99 /\ m.A = 99 /\ m.fault = {}
\* branches and cycles: taken branch costs 3, not taken 2
ASSUME LET m == R(<<I("LDA", "imm", 0), J("BEQ", 4), I("LDA", "imm", 1), I("RTS", "none", 0)>>, M0(9, 0)) IN m.A = 0 /\ m.cyc = 2 + 3 + 6
ASSUME LET m == R(<<I("LDA", "imm", 0), J("BNE", 4), I("LDA", "imm", 1), I("RTS", "none", 0)>>, M0(9, 0)) IN m.A = 1 /\ m.cyc = 2 + 2 + 2 + 6
\* JSR/RTS pairing, PHA/PLA, stack discipline faults
ASSUME LET m == R(<<J("JSR", 3), I("RTS", "none", 0), I("LDA", "imm", 7), I("RTS", "none", 0)>>, M0(0, 0)) IN m.A = 7 /\ m.halted /\ m.fault = {} /\ m.pc = 2
ASSUME LET m == R(<<I("PHA", "none", 0), I("LDA", "imm", 0), I("PLA", "none", 0)>>, M0(200, 0)) IN m.A = 200 /\ m.N = 1 /\ m.stk = <<>> /\ m.cyc = 3 + 2 + 4
ASSUME LET m == R(<<J("JSR", 2), I("PLA", "none", 0)>>, M0(0, 0)) IN "stackMismatch" \in m.fault
ASSUME LET m == R(<<I("PHA", "none", 0), I("RTS", "none", 0)>>, M0(0, 0)) IN "stackMismatch" \in m.fault
\* illegal modes and unknown text
ASSUME LET m == R(<<I("STA", "imm", 3)>>, M0(0, 0)) IN m.fault = {"illegalMode"} /\ m.halted
ASSUME LET m == R(<<I("INC", "y", 130)>>, M0(0, 0)) IN m.fault = {"illegalMode"}
ASSUME LET m == R(<<I("LDX", "x", 130)>>, M0(0, 0)) IN m.fault = {"illegalMode"}
ASSUME LET m == R(<<I("FOO", "none", 0)>>, M0(0, 0)) IN m.fault = {"opaque"}
ASSUME LET m == R(<<I("NOP", "none", 0)>>, M0(0, 0)) IN m.fault = {"ranOff"}
\* memory classes: rom write, unmapped, split ports
ASSUME LET m == R(<<I("STA", "plain", 61440)>>, M0(1, 0)) IN "writeToRom" \in m.fault
ASSUME LET m == R(<<I("LDA", "plain", 20000)>>, M0(1, 0)) IN "unmapped" \in m.fault
ASSUME LET m == R(<<I("LDA", "imm", 42), I("STA", "plain", 4097), I("LDA", "imm", 0), I("LDA", "plain", 4225), I("RTS", "none", 0)>>, M0(0, 0)) IN m.A = 42 /\ m.fault = {} /\ m.mem[4097] = 42
ASSUME LET m == R(<<I("LDA", "plain", 4097)>>, M0(0, 0)) IN "readOfWritePort" \in m.fault
ASSUME LET m == R(<<I("STA", "plain", 4225)>>, M0(0, 0)) IN "writeToReadPort" \in m.fault
ASSUME LET m == R(<<I("INC", "plain", 4097)>>, M0(0, 0)) IN m.fault = {"rmwOnSplitRam"}
ASSUME LET m == R(<<I("ASL", "plain", 4225)>>, M0(0, 0)) IN m.fault = {"rmwOnSplitRam"}
\* io logging
ASSUME LET m == R(<<I("LDA", "imm", 5), I("STA", "plain", 769), I("LDA", "plain", 769)>>, M0(0, 0))
       IN m.io = <<[rw |-> "w", addr |-> 769, val |-> 5], [rw |-> "r", addr |-> 769, val |-> 5]>>
\* transfers and logic
ASSUME LET m == R(<<I("TAX", "none", 0), I("TXA", "none", 0), I("TAY", "none", 0), I("EOR", "imm", 255), I("AND", "imm", 15), I("ORA", "imm", 64)>>, M0(165, 0))
       IN m.X = 165 /\ m.Y = 165 /\ m.A = 74
\* PHP/PLP restore flags
ASSUME LET m == R(<<I("SEC", "none", 0), I("PHP", "none", 0), I("CLC", "none", 0), I("LDA", "imm", 0), I("PLP", "none", 0)>>, M0(200, 0)) IN m.C = 1 /\ m.Z = 0
VARIABLE dummy
Init == dummy = 0
Next == UNCHANGED dummy
=============================================================================
