------------------------------- MODULE Refine -------------------------------
(***************************************************************************)
(* Translation validation by refinement checking: the code the real         *)
(* compiler emitted for a case is loaded into the 6502 machine (M6502) and  *)
(* executed from every listed input and two ambient configurations.         *)
(*                                                                          *)
(*  sem  check (C01, C17, ...): when the execution halts, the observable    *)
(*       final state must equal the state the source semantics prescribes   *)
(*       (computed by SrcEval on CSem and carried in the case as ex).       *)
(*  pair check (C02, C14, C15, C11): variant 1 is run to completion, its    *)
(*       observable result is remembered, the machine is reset to the same  *)
(*       input with variant j's code, and the two results must be equal     *)
(*       (sequential product inside one behaviour).                         *)
(*  Every execution must be free of machine faults (illegal addressing      *)
(*  mode, stack mismatch, wrong port of split RAM, ...) and must halt       *)
(*  within a bound derived from the source's own step count.                *)
(*                                                                          *)
(* A mismatch is printed as one line  MM {json}  and checking continues, so *)
(* that one run reports every mismatch; the driver turns lines that are not *)
(* attributed to a known finding into VIOLATIONs.                           *)
(***************************************************************************)
EXTENDS M6502, Json, IOUtils, TLC
Cases == ndJsonDeserialize(IOEnv.CASES)

VARIABLES cs,    \* case index
          k,     \* input index
          amb,   \* ambient configuration of everything the source leaves unspecified
          vj,    \* variant executed in phase 2 (0: none; sem-only behaviour runs variant v1)
          v1,    \* variant executed in phase 1
          ph,    \* phase
          r1,    \* observable result of phase 1
          m      \* the machine
vars == <<cs, k, amb, vj, v1, ph, r1, m>>

Names(c) == DOMAIN c.vt \ {"X", "Y"}
\* memory cells of a variable (split layout for arrays of 16-bit elements: low bytes, then high bytes)
CellsOf(d) == IF d.kind = "a" THEN d.addr..(d.addr + d.n * (d.w \div 8) - 1)
              ELSE IF d.kind = "p" \/ d.w = 16 THEN {d.addr, d.addr + 1} ELSE {d.addr}
ByteOf(d, val, a) ==
  IF d.kind = "a" THEN
     (IF a < d.addr + d.n THEN val[a - d.addr + 1] % 256 ELSE val[a - d.addr - d.n + 1] \div 256)
  ELSE IF a = d.addr THEN val % 256 ELSE val \div 256
ValOf(d, mem) ==
  IF d.kind = "a" THEN
     [i \in 1..d.n |-> IF d.w = 8 THEN mem[d.addr + i - 1] ELSE mem[d.addr + i - 1] + 256 * mem[d.addr + d.n + i - 1]]
  ELSE IF d.kind = "p" \/ d.w = 16 THEN mem[d.addr] + 256 * mem[d.addr + 1] ELSE mem[d.addr]

MemOf(c, inp, ambient) ==
  LET dom == UNION {CellsOf(c.vt[n]) : n \in Names(c)} \cup {c.tmp}
      owner(a) == CHOOSE n \in Names(c) : a \in CellsOf(c.vt[n])
  IN [a \in dom |-> IF a = c.tmp /\ ~\E n \in Names(c) : a \in CellsOf(c.vt[n]) THEN 85 * ambient
                    ELSE ByteOf(c.vt[owner(a)], inp[owner(a)], a)]

Cx(c, v) == [code |-> c.variants[v].code, regions |-> c.regions]
\* flags: ambient, unless the input fixes them (C03: all N/Z/C/V valuations)
Flag(inp, n, dflt) == IF n \in DOMAIN inp THEN inp[n] ELSE dflt
Boot(c, v, inp, ambient) ==
  Machine(c.variants[v].entry, 170 * ambient, inp["X"], inp["Y"], Flag(inp, "_C", ambient), Flag(inp, "_Z", 1 - ambient),
          Flag(inp, "_N", ambient), Flag(inp, "_V", ambient), MemOf(c, inp, ambient))

ObsNames(c) == {c.obs[i] : i \in 1..Len(c.obs)}
Result(c, mm) == [n \in ObsNames(c) |-> ValOf(c.vt[n], mm.mem)] @@ [n \in {"X", "Y"} |-> IF n = "X" THEN mm.X ELSE mm.Y]
               @@ ("_io" :> mm.io)
               \* where the case asks for it (variants = one source at several optimisation levels): the accesses made by protected instructions
               @@ ("_xio" :> IF "xio" \in DOMAIN c /\ c.xio THEN mm.xio ELSE <<>>)

\* staged choice: the case is chosen first (phase 0), then input, ambient configuration and
\* variant(s), so that TLC's workers share the construction of the initial machines
Init == cs = 0 /\ k = 0 /\ amb = 0 /\ vj = 0 /\ v1 = 0 /\ ph = 0 /\ r1 = <<>> /\ m = <<>>
Choose ==
  \/ /\ cs = 0 /\ cs' \in 1..Len(Cases)
     /\ UNCHANGED <<k, amb, vj, v1, ph, r1, m>>
  \/ /\ cs # 0 /\ ph = 0
     /\ k' \in 1..Len(Cases[cs].inputs)
     /\ amb' \in {0, 1}
     /\ \/ /\ Cases[cs].sem /\ vj' = 0 /\ v1' \in 1..Len(Cases[cs].variants)
        \/ /\ Cases[cs].pair /\ v1' = 1 /\ vj' \in 2..Len(Cases[cs].variants)
     /\ ph' = 1
     /\ r1' = <<>>
     /\ m' = Boot(Cases[cs], v1', Cases[cs].inputs[k'].inp, amb')
     /\ cs' = cs

Bound == Cases[cs].inputs[k].bound
\* the second execution of a pair gets a larger budget, so that a slightly longer variant is never
\* mistaken for a diverging one
\* control-flow cases (prefix = TRUE) compare announced paths: a handful of announcements is enough
Live == /\ ph # 0 /\ ~m.halted
        /\ m.steps < (IF ph = 1 THEN Bound ELSE IF Cases[cs].prefix THEN Bound + (Bound \div 4) + 50 ELSE 3 * Bound + 100)
        /\ (Cases[cs].prefix => Len(m.io) < 10)

Next ==
  \/ Choose
  \/ /\ ph # 0 /\ Live
     /\ m' = Step(m, Cx(Cases[cs], IF ph = 1 THEN v1 ELSE vj))
     /\ UNCHANGED <<cs, k, amb, vj, v1, ph, r1>>
  \/ /\ ph = 1 /\ ~Live /\ vj # 0
     /\ ph' = 2
     /\ r1' = [halted |-> m.halted, fault |-> m.fault, res |-> Result(Cases[cs], m), steps |-> m.steps, cyc |-> m.cyc]
     /\ m' = Boot(Cases[cs], vj, Cases[cs].inputs[k].inp, amb)
     /\ UNCHANGED <<cs, k, amb, vj, v1>>
Spec == Init /\ [][Next]_vars

Done == ph # 0 /\ ~Live /\ (vj = 0 \/ ph = 2)
Ex == Cases[cs].inputs[k].ex
\* io events: the source leaves the value of a strobe unspecified (-1)
IoMatches(got, want) ==
  /\ Len(got) = Len(want)
  /\ \A i \in 1..Len(want) : got[i].rw = want[i].rw /\ got[i].addr = want[i].addr
                              /\ (want[i].val = -1 \/ got[i].val = want[i].val)
SemOK ==
  /\ m.halted /\ m.fault = {}
  /\ LET r == Result(Cases[cs], m) IN
       /\ \A n \in DOMAIN Ex \ {"_io"} : r[n] = Ex[n]
       /\ IoMatches(r["_io"], Ex["_io"])
\* pair: both halted -> same result; phase 1 halted -> phase 2 halts (bound = 3 * steps + 100, see Next2Bound)
IsPrefix(a, b) == Len(a) <= Len(b) /\ \A q \in 1..Len(a) : a[q] = b[q]
PairOK ==
  IF ~r1.halted
  THEN \* reference execution cut at its bound: final states are not comparable; where the case asks
       \* for it (control-flow checks) the announced paths must still be prefix-related
       Cases[cs].prefix => (IsPrefix(r1.res["_io"], m.io) \/ IsPrefix(m.io, r1.res["_io"]))
  ELSE /\ m.halted
       /\ m.fault = r1.fault
       /\ Result(Cases[cs], m) = r1.res
       \* timing cases (C18): variant 1 contains csleep(n), variant 2 is the same program without it
       /\ (Cases[cs].cycdiff >= 0 => r1.cyc - m.cyc = Cases[cs].cycdiff)

Tag == [id |-> Cases[cs].id, k |-> k, amb |-> amb, v1 |-> Cases[cs].variants[v1].name,
        vj |-> IF vj = 0 THEN "" ELSE Cases[cs].variants[vj].name]
Report ==
  Done =>
    /\ (vj = 0 /\ ~SemOK) =>
         PrintT("MM " \o ToJson(Tag @@ [kind |-> "sem", halted |-> m.halted, fault |-> m.fault, steps |-> m.steps,
                                        got |-> Result(Cases[cs], m), want |-> Ex, A |-> m.A]))
    /\ (vj # 0 /\ ~PairOK) =>
         PrintT("MM " \o ToJson(Tag @@ [kind |-> "pair", halted |-> m.halted, fault |-> m.fault, steps |-> m.steps,
                                        got |-> Result(Cases[cs], m), want |-> r1.res, fault1 |-> r1.fault, steps1 |-> r1.steps,
                                        cyc |-> m.cyc, cyc1 |-> r1.cyc]))
    /\ (vj # 0 /\ ~r1.halted) => PrintT("CUT " \o ToJson(Tag))
=============================================================================
