----------------------------- MODULE GenLayout -----------------------------
(***************************************************************************)
(* Layer 3: generator of function layouts for the long-branch check (C03).  *)
(* A layout is a sequence of items                                          *)
(*   [t |-> "seg", n, style]  n bytes of flag-neutral code that announces   *)
(*                            itself (a store to an io cell) when executed  *)
(*   [t |-> "lab", name]      a label                                       *)
(*   [t |-> "br", kind, to]   a conditional branch; kind LEU = BCC+BEQ,     *)
(*                            LES = BMI+BEQ (the two-instruction <=)        *)
(* The driver renders a layout through the public AssemblyCode API, calls   *)
(* check_branches(), and hands original and repaired code to Asm.tla        *)
(* (range, labels, size) and to Refine.tla (same path for all flag states). *)
(***************************************************************************)
EXTENDS Integers, Sequences, TLC, Json
CONSTANTS Dists, Styles, Tier

Kinds == {"BEQ", "BNE", "BCC", "BCS", "BMI", "BPL", "LEU", "LES"}
Seg(n, st) == [t |-> "seg", n |-> n, style |-> st]
Lab(l) == [t |-> "lab", name |-> l]
Br(k, l) == [t |-> "br", kind |-> k, to |-> l]
L(fam, items) == [fam |-> fam, items |-> items]

Fwd == {L("fwd", <<Seg(pre, "nop"), Br(k, "L1"), Seg(d, st), Lab("L1"), Seg(3, "nop")>>) :
          pre \in {2, 5}, k \in Kinds, d \in Dists, st \in Styles}
Bwd == {L("bwd", <<Seg(2, "nop"), Lab("L1"), Seg(d, st), Br(k, "L1"), Seg(3, "nop")>>) :
          k \in Kinds, d \in Dists, st \in Styles}
\* the repair of the inner branch (+3 bytes, +5 for the pairs' negation) pushes the outer one over the limit
Cascade == {L("cascade", <<Br(k1, "L1"), Seg(a, "nop"), Br(k2, "L2"), Seg(b, "nop"), Lab("L1"), Seg(c, "nop"), Lab("L2"), Seg(3, "nop")>>) :
              k1 \in Kinds, k2 \in Kinds, a \in {40}, b \in {80, 83, 85, 86}, c \in {44, 47, 50}}
           \cup {L("cascade", <<Lab("L2"), Seg(c, "nop"), Lab("L1"), Seg(b, "nop"), Br(k2, "L2"), Seg(a, "nop"), Br(k1, "L1"), Seg(3, "nop")>>) :
              k1 \in Kinds, k2 \in Kinds, a \in {40}, b \in {78, 81, 83, 84}, c \in {42, 45, 48}}
\* several branches to one label
\* (a user label spelled like the repair's own labels, ".fix1", is the known defect KF-C13-userlabel
\*  and is exercised by C13's label-stress programs, not here)
Shared == {L("shared", <<Br(k1, "L1"), Seg(60, "nop"), Br(k2, "L1"), Seg(d, "nop"), Lab("L1"), Seg(3, "nop")>>) :
             k1 \in Kinds, k2 \in Kinds, d \in {60, 66, 67, 70, 130}}
\* a far branch directly followed by a branch to ANOTHER label: not a "less-or-equal" pair, whatever it looks like
Adjacent == {L("adjacent", <<Seg(2, "nop"), Br(k1, "L1"), Br(k2, "L2"), Seg(d, "nop"), Lab("L1"), Seg(5, "nop"), Lab("L2"), Seg(3, "nop")>>) :
               k1 \in Kinds, k2 \in {"BEQ", "BNE", "BCC", "BMI"}, d \in {100, 124, 126, 130}}
            \cup {L("adjacent", <<Lab("L2"), Seg(4, "nop"), Lab("L1"), Seg(d, "nop"), Br(k1, "L1"), Br(k2, "L2"), Seg(3, "nop")>>) :
               k1 \in Kinds, k2 \in {"BEQ", "BNE"}, d \in {100, 123, 126, 130}}
Three == {L("three", <<Br(k1, "L1"), Seg(30, "nop"), Br(k2, "L2"), Seg(30, "nop"), Br(k3, "L3"), Seg(65, "nop"), Lab("L1"),
                       Seg(30, "nop"), Lab("L2"), Seg(35, "nop"), Lab("L3"), Seg(3, "nop")>>) : k1 \in Kinds, k2 \in Kinds, k3 \in Kinds}

All == Fwd \cup Bwd \cup Cascade \cup Shared \cup Adjacent \cup (IF Tier = "thorough" THEN Three ELSE {})
VARIABLE lay
Init == lay \in All
Next == UNCHANGED lay
Emit == PrintT("CASE " \o ToJson(lay))
=============================================================================
