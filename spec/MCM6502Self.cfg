INIT Init
NEXT Next
