---------------------------- MODULE GenLitShape ----------------------------
(***************************************************************************)
(* Layer 3 generator for C09 (and C05): where string literals may stand    *)
(* inside ONE expression.  The code generator names the literals of a      *)
(* statement cctmp<n> while it walks the expression - the top level, then   *)
(* parenthesised sub-expressions, array subscripts and call arguments each  *)
(* through a nested parse that continues the numbering - and stores them    *)
(* after the statement.  Whatever the shape, every literal of the source    *)
(* must be stored, once, with its own bytes.                                *)
(* A shape is a tree                                                        *)
(*   Lit            g0("q<k>")        (a call whose argument is a literal)   *)
(*   Par(e)         (e)                                                      *)
(*   Bin(a, b)      a + b                                                    *)
(*   Sub(e)         a0[e]                                                    *)
(*   Arg(e)         f1(e)             (a call whose argument is e)            *)
(* with at most MaxLits literals and depth at most MaxDepth; the driver      *)
(* renders it in three statement contexts (assignment, condition, return)    *)
(* and numbers the literals from left to right.                              *)
(***************************************************************************)
EXTENDS Integers, Sequences, TLC, Json
CONSTANTS MaxLits, MaxDepth

Lit == [k |-> "lit"]
Par(e) == [k |-> "par", e |-> e]
Bin(a, b) == [k |-> "bin", a |-> a, b |-> b]
Sub(e) == [k |-> "sub", e |-> e]
Arg(e) == [k |-> "arg", e |-> e]

RECURSIVE Trees(_)
Trees(d) == IF d = 0 THEN {Lit}
            ELSE LET T == Trees(d - 1) IN
                 T \cup {Par(e) : e \in T} \cup {Sub(e) : e \in T} \cup {Arg(e) : e \in T} \cup {Bin(a, b) : a \in T, b \in T}
RECURSIVE NLits(_)
NLits(t) == CASE t.k = "lit" -> 1 [] t.k = "bin" -> NLits(t.a) + NLits(t.b) [] OTHER -> NLits(t.e)

Shapes == {t \in Trees(MaxDepth) : NLits(t) <= MaxLits}
Contexts == {"assign", "cond", "ret"}
VARIABLES shape, ctx
Init == shape \in Shapes /\ ctx \in Contexts
Next == UNCHANGED <<shape, ctx>>
Emit == PrintT("CASE " \o ToJson([shape |-> shape, ctx |-> ctx, lits |-> NLits(shape)]))
=============================================================================
