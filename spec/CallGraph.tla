----------------------------- MODULE CallGraph -----------------------------
(***************************************************************************)
(* Layer 1 for C12: what the published call tree and in-use set must        *)
(* satisfy, given the calls the source makes and the jumps the emitted code *)
(* contains.  Reach is computed by a work-list fixpoint (terminates on      *)
(* cyclic graphs as well).                                                  *)
(*   Recorded     every source call f -> g appears in tree[f]               *)
(*   JsrRecorded  every JSR g emitted in f's code is reachable from f in    *)
(*                the tree in one or more steps                             *)
(*   InUseExact   in_use = Reach(tree, main + interrupt handlers)           *)
(*   InUseCovers  everything reachable through the SOURCE calls is in use   *)
(* The checker reads cases (source view from the generator, observed view   *)
(* from the real compiler) and prints one line  CG {json}  per broken       *)
(* predicate.                                                               *)
(***************************************************************************)
EXTENDS Integers, Sequences, FiniteSets, Json, IOUtils, TLC
Cases == ndJsonDeserialize(IOEnv.CASES)

SetOf(s) == {s[i] : i \in 1..Len(s)}
Succ(g, f) == IF f \in DOMAIN g THEN SetOf(g[f]) ELSE {}
RECURSIVE Close(_, _, _)
Close(g, done, todo) ==
  IF todo = {} THEN done
  ELSE LET f == CHOOSE x \in todo : TRUE
           new == Succ(g, f) \ (done \cup {f})
       IN Close(g, done \cup {f}, (todo \ {f}) \cup new)
Reach(g, roots) == Close(g, {}, roots)

Recorded(c) == \A f \in DOMAIN c.src : \A g \in SetOf(c.src[f]) : g \in Succ(c.tree, f)
\* (a JSR that entered f's code through the expansion of an inline callee is recorded under that callee:
\*  it must be reachable from f through the tree in at least one step)
ReachPlus(g, f) == UNION {Reach(g, {h}) : h \in Succ(g, f)}
JsrRecorded(c) == \A f \in DOMAIN c.jsr : \A g \in SetOf(c.jsr[f]) : g \in ReachPlus(c.tree, f)
InUseExact(c) == SetOf(c.inuse) = Reach(c.tree, SetOf(c.roots))
InUseCovers(c) == Reach(c.src, SetOf(c.roots)) \subseteq SetOf(c.inuse)

ASSUME Reach([a |-> <<"b", "c">>, b |-> <<"a">>, d |-> <<"a">>], {"a"}) = {"a", "b", "c"}
ASSUME Reach([a |-> <<>>], {"a", "z"}) = {"a", "z"}

VARIABLE cs
Init == cs \in 1..Len(Cases)
Next == UNCHANGED cs
Report ==
  LET c == Cases[cs]
      bad == (IF Recorded(c) THEN {} ELSE {"Recorded"}) \cup (IF JsrRecorded(c) THEN {} ELSE {"JsrRecorded"})
             \cup (IF InUseExact(c) THEN {} ELSE {"InUseExact"}) \cup (IF InUseCovers(c) THEN {} ELSE {"InUseCovers"})
  IN bad # {} => PrintT("CG " \o ToJson([id |-> c.id, broken |-> bad, reach |-> Reach(c.tree, SetOf(c.roots))]))
=============================================================================
