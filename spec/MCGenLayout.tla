---- MODULE MCGenLayout ----
EXTENDS GenLayout
MCDists == {119, 122, 124, 125, 126, 127, 128, 129, 130, 131, 133}
MCStyles == {"nop", "sta3", "inl"}
====
