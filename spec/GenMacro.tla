------------------------------ MODULE GenMacro ------------------------------
(***************************************************************************)
(* Layer 3 generator for C08: a subset (in order) of a menu of definitions, *)
(* optionally followed by #undef / redefinition, and one use site from a    *)
(* menu; printed with the token sequence MacroRef!Expand prescribes.        *)
(***************************************************************************)
EXTENDS MacroRef, Json, FiniteSets
Menu == <<D("N", <<"5">>),
          D("W", <<"(", "N", "+", "1", ")">>),
          F("F", <<"x">>, <<"(", "(", "x", ")", "*", "2", ")">>),
          F("G", <<"x", "y">>, <<"(", "x", "-", "y", ")">>),
          F("H", <<>>, <<"7">>),
          F("K3", <<"a", "b", "c">>, <<"(", "a", "+", "b", "*", "c", ")">>),
          D("xx", <<"3">>),
          F("P", <<"x">>, <<"(", "x", "+", "px", "+", "x1", ")">>),
          F("Q2", <<"N1", "y">>, <<"(", "N1", "+", "y", "+", "N", ")">>),
          D("V", <<"(", "vq", ")">>)>>
Uses == {<<"N">>, <<"N", "+", "N">>, <<"(", "N", ")">>, <<"-", "N">>, <<"N1">>, <<"aN">>, <<"_N">>, <<"N_">>, <<"\"N\"">>, <<"\"F(1)\"", "+", "N">>,
         <<"W">>, <<"W", "*", "W">>, <<"F", "(", "N", ")">>, <<"F", "(", "1", ")">>, <<"F", "(", "F", "(", "1", ")", ")">>, <<"F">>, <<"F", "+", "1">>,
         <<"G", "(", "1", ",", "2", ")">>, <<"G", "(", "(", "3", ")", ",", "(", "4", ")", ")">>, <<"G", "(", "F", "(", "1", ")", ",", "N", ")">>,
         <<"G", "(", "G", "(", "1", ",", "2", ")", ",", "3", ")">>, <<"F", "(", "G", "(", "1", ",", "2", ")", ")">>,
         <<"F", "(", "(", "1", ")", ")">>, <<"F", "(", "(", "(", "1", ")", ")", ")">>, <<"F", "(", "(", "(", "(", "1", ")", ")", ")", ")">>,
         <<"F", "(", "(", "(", "(", "(", "1", ")", ")", ")", ")", ")">>, <<"F", "(", "(", "1", "+", "2", ")", "*", "(", "3", ")", ")">>,
         <<"H", "(", ")">>, <<"H", "(", ")", "+", "H", "(", ")">>, <<"K3", "(", "1", ",", "2", ",", "3", ")">>, <<"K3", "(", "N", ",", "F", "(", "2", ")", ",", "W", ")">>,
         <<"xx">>, <<"axx">>, <<"xx1">>, <<"x">>, <<"xx", "+", "xxx">>, <<"P", "(", "2", ")">>, <<"P", "(", "N", ")">>, <<"Q2", "(", "1", ",", "2", ")">>,
         <<"F", "(", "1", ")", "+", "G", "(", "2", ",", "3", ")">>, <<"N", "F", "(", "N", ")", "N">>, <<"GG", "(", "1", ",", "2", ")">>, <<"F1", "(", "1", ")">>,
         <<"V">>, <<"V", "+", "V">>, <<"V", "(", "2", ")">>}
Tails == {<<>>, <<[k |-> "undef", name |-> "N"]>>, <<[k |-> "undef", name |-> "F"]>>,
          <<[k |-> "undef", name |-> "N"], D("N", <<"9">>)>>, <<[k |-> "undef", name |-> "xx"]>>,
          <<[k |-> "undef", name |-> "F"], F("F", <<"z">>, <<"(", "z", "+", "1", ")">>)>>,
          \* two removals, the first one of a filler macro of the first block (with >= 100 fillers the second lies in a later block)
          <<[k |-> "undef", name |-> "FILL3"], [k |-> "undef", name |-> "N"]>>, <<[k |-> "undef", name |-> "FILL3"], [k |-> "undef", name |-> "F"]>>,
          <<[k |-> "undef", name |-> "FILL3"], [k |-> "undef", name |-> "xx"], D("xx", <<"4">>)>>}
\* how the first definitions reach the preprocessor, and how many filler macros surround the menu (chunk boundaries at 100)
Origins == {"source", "cmdline"}
Fillers == {0, 97, 99, 100, 198}

VARIABLES sel, tail, use, origin, filler
vars == <<sel, tail, use, origin, filler>>
Init == /\ sel \in SUBSET (1..Len(Menu)) /\ tail \in Tails /\ use \in Uses /\ origin \in Origins /\ filler \in Fillers
Next == UNCHANGED vars
Chosen == LET idx == {i \in sel : TRUE} IN
          [j \in 1..Cardinality(idx) |-> Menu[CHOOSE i \in idx : Cardinality({q \in idx : q < i}) = j - 1]]
Dirs == Chosen \o tail
\* an #undef or redefinition only makes sense for a name the selection defines; W needs N
WellFormed == /\ \A i \in 1..Len(tail) : tail[i].k = "undef" => (tail[i].name \in {Chosen[j].name : j \in 1..Len(Chosen)} \/ (tail[i].name = "FILL3" /\ filler > 3))
              /\ (2 \in sel => 1 \in sel) /\ (9 \in sel => 1 \in sel)
              /\ (origin = "cmdline" => 1 \in sel)
              /\ (filler # 0 => Cardinality(sel) <= 3)
              /\ Cardinality(sel) >= 1 /\ Cardinality(sel) <= 4
\* -D options seen through the whole compiler: the statement `stmt` compiled with the option must give the code of the
\* statement MacroRef expands it to, compiled without any macro (driver: program "char r, q; void main() { <stmt>; }")
DOpts == {[opt |-> <<"N">>, stmt |-> <<"r", "=", "N">>], [opt |-> <<"N", "=", "5">>, stmt |-> <<"r", "=", "N", "+", "N1">>],
          [opt |-> <<"N", "=", "r", "=", "3">>, stmt |-> <<"N">>], [opt |-> <<"N", "=", "r", "==", "3">>, stmt |-> <<"q", "=", "N">>],
          [opt |-> <<"N", "=", "q", "=", "r", "==", "N1">>, stmt |-> <<"N">>], [opt |-> <<"N", "=", "(", "1", "+", "2", ")">>, stmt |-> <<"r", "=", "N", "*", "2">>],
          [opt |-> <<"N1", "=", "2">>, stmt |-> <<"r", "=", "N1", "+", "q">>], [opt |-> <<"N", "=", "N1">>, stmt |-> <<"r", "=", "N">>]}
EmitDOpts == \A c \in DOpts : PrintT("DOPT " \o ToJson([opt |-> c.opt, stmt |-> c.stmt, expected |-> Expand(c.stmt, Active(<<DOptDefine(c.opt)>>, 1, <<>>), 50)]))
ASSUME EmitDOpts
Emit == WellFormed => PrintT("CASE " \o ToJson([dirs |-> Dirs, use |-> use, origin |-> origin, filler |-> filler,
                                                 expected |-> Expand(use, Active(Dirs, 1, <<>>), 50)]))
=============================================================================
