SPECIFICATION Spec
CONSTANTS MaxLen = 4
INVARIANT LabelsOK
INVARIANT ClosedOK
INVARIANT SizeOK
INVARIANT ShapeOK
CHECK_DEADLOCK FALSE
