------------------------------ MODULE Peephole ------------------------------
(***************************************************************************)
(* Layer 2: AssemblyCode::optimize AS CODED (src/assemble.rs), over         *)
(* abstract assembly lines, and a design-level check of what its register   *)
(* beliefs promise (C02).                                                   *)
(*                                                                          *)
(* A line is                                                                *)
(*   [k |-> "i", mn, op, prot]   an instruction; op = [b, m] with           *)
(*                               m \in {"none","imm","abs","x","y","indy"}  *)
(*                               (the code looks at operand TEXT: '#...' is *)
(*                               imm, '...,X' is x, '...,Y' is y or indy)   *)
(*   [k |-> "l", name]           a label                                    *)
(*   [k |-> "d"]                 a dummy (a removed instruction)            *)
(*   [k |-> "o"]                 a comment: the scan steps over it           *)
(*   [k |-> "a"]                 inline assembly: may do anything, restarts  *)
(*                               the beliefs like a label                    *)
(* The algorithm keeps two cursors (first, second) on instructions, three   *)
(* beliefs "register R holds operand o" and one belief "the flags describe  *)
(* register R"; one iteration of its main loop is one Step here.            *)
(***************************************************************************)
EXTENDS Integers, Sequences, FiniteSets, TLC

NoOp == [b |-> "", m |-> "none"]
Op(b, m) == [b |-> b, m |-> m]
I(mn, op) == [k |-> "i", mn |-> mn, op |-> op, prot |-> FALSE]
IP(mn, op) == [k |-> "i", mn |-> mn, op |-> op, prot |-> TRUE]
L(n) == [k |-> "l", name |-> n]
Dummy == [k |-> "d"]
Other == [k |-> "o"]
Asm == [k |-> "a"]
None == [b |-> "<none>", m |-> "none"]          \* "no belief"

IsI(c, i) == i > 0 /\ i <= Len(c) /\ c[i].k = "i"
IsImm(o) == o.m = "imm"
EndsX(o) == o.m = "x"
EndsY(o) == o.m \in {"y", "indy"}

\* ---- the iterator ---------------------------------------------------------
\* nxt is the index iter.next() returns next; 0 stands for None
NextIdx(c, nxt) == IF nxt <= Len(c) THEN [i |-> nxt, nxt |-> nxt + 1] ELSE [i |-> 0, nxt |-> nxt]
RECURSIVE SkipToInstr(_, _, _)
SkipToInstr(c, i, nxt) ==     \* loop { None -> return; Instruction -> break; _ -> first = iter.next() }
  IF i = 0 THEN [i |-> 0, nxt |-> nxt]
  ELSE IF c[i].k = "i" THEN [i |-> i, nxt |-> nxt]
  ELSE LET r == NextIdx(c, nxt) IN SkipToInstr(c, r.i, r.nxt)

\* beliefs after looking at a (new) first instruction; withFlags: the flags belief is set too (to Unknown when no load)
Analyze(st, line, withFlags) ==
  LET a == IF line.mn = "LDA" THEN line.op ELSE st.acc
      x == IF line.mn = "LDX" THEN line.op ELSE st.xr
      y == IF line.mn = "LDY" THEN line.op ELSE st.yr
      f == IF ~withFlags THEN st.flags
           ELSE IF line.mn = "LDA" THEN "A" ELSE IF line.mn = "LDX" THEN "X" ELSE IF line.mn = "LDY" THEN "Y" ELSE "Unknown"
  IN [st EXCEPT !.acc = a, !.xr = x, !.yr = y, !.flags = f]
Forget(st) == [st EXCEPT !.acc = None, !.xr = None, !.yr = None]

InitState(c) ==
  LET f == SkipToInstr(c, IF Len(c) >= 1 THEN 1 ELSE 0, 2)
      base == [code |-> c, first |-> f.i, second |-> 0, nxt |-> f.nxt, acc |-> None, xr |-> None, yr |-> None, flags |-> "Unknown",
               removed |-> 0, done |-> f.i = 0, atEnd |-> FALSE]
  IN IF f.i = 0 THEN base
     ELSE LET s == NextIdx(c, f.nxt)
              st == [base EXCEPT !.second = s.i, !.nxt = s.nxt]
              \* the very first instruction: the flags belief keeps its initial Unknown when it is not a load
          IN Analyze(st, c[f.i], c[f.i].mn \in {"LDA", "LDX", "LDY"})

\* ---- step A: JMP to the label that follows ----------------------------------
StepA(st) ==
  LET c == st.code IN
  IF st.second # 0 /\ c[st.second].k = "l" /\ c[st.first].mn = "JMP" /\ c[st.first].op = Op(c[st.second].name, "abs") /\ ~c[st.first].prot
  THEN LET c2 == [c EXCEPT ![st.first] = Dummy]
           f == SkipToInstr(c2, st.second, st.nxt)
       IN IF f.i = 0 THEN [st EXCEPT !.code = c2, !.removed = @ + 1, !.done = TRUE]
          ELSE LET s == NextIdx(c2, f.nxt)
               IN [st EXCEPT !.code = c2, !.removed = @ + 1, !.first = f.i, !.second = s.i, !.nxt = s.nxt]
  ELSE st

\* ---- step B: make second point to an instruction; a label restarts the beliefs ----
RECURSIVE StepB(_)
StepB(st) ==
  LET c == st.code IN
  IF st.done THEN st
  ELSE IF st.second = 0 THEN [st EXCEPT !.done = TRUE, !.atEnd = TRUE]     \* the scan ran off the end: the beliefs describe the end of the code
  ELSE IF c[st.second].k = "i" THEN st
  ELSE IF c[st.second].k \in {"l", "a"}
       THEN LET n1 == NextIdx(c, st.nxt)
                f == SkipToInstr(c, n1.i, n1.nxt)
            IN IF f.i = 0 THEN [st EXCEPT !.done = TRUE]
               ELSE LET s == NextIdx(c, f.nxt)
                        st2 == Forget([st EXCEPT !.first = f.i, !.second = s.i, !.nxt = s.nxt])
                    IN StepB(Analyze(st2, c[f.i], TRUE))
       ELSE LET s == NextIdx(c, st.nxt) IN StepB([st EXCEPT !.second = s.i, !.nxt = s.nxt])

\* ---- step C: the pair rules ---------------------------------------------------
Obvious(belief, cmpMn, i1, i2) ==
  /\ belief # None /\ IsImm(belief) /\ i1.mn = cmpMn /\ IsImm(i1.op) /\ ~i2.prot
  /\ \/ i2.mn = "BNE" /\ belief = i1.op
     \/ i2.mn = "BEQ" /\ belief # i1.op
RemoveBoth(st, i1, i2) ==
  \/ i1.mn = "PLA" /\ i2.mn = "PHA" /\ ~i1.prot /\ ~i2.prot
  \/ Obvious(st.acc, "CMP", i1, i2) \/ Obvious(st.xr, "CPX", i1, i2) \/ Obvious(st.yr, "CPY", i1, i2)
SameOpPair == {<<"STA", "LDA">>, <<"LDA", "STA">>, <<"LDY", "STY">>, <<"LDX", "STX">>}
TransferPair == {<<"TAX", "TXA">>, <<"TXA", "TAX">>, <<"TAY", "TYA">>, <<"TYA", "TAY">>}
RemoveSecondC(i1, i2) ==
  \/ i1.mn = "JMP" /\ i2.mn = "JMP" /\ ~i1.prot /\ ~i2.prot
  \/ <<i1.mn, i2.mn>> \in SameOpPair /\ i1.op = i2.op /\ ~i2.prot
  \/ <<i1.mn, i2.mn>> \in TransferPair /\ ~i2.prot
  \/ i2.mn = "ORA" /\ i2.op = Op("0", "imm") /\ ~i2.prot
RemoveFirst(i1, i2) == i1.mn = i2.mn /\ i1.mn \in {"LDA", "LDX", "LDY"} /\ ~i1.prot
SwapBoth(i1, i2) == i1.mn = "LDA" /\ i2.mn \in {"SEC", "CLC"}

\* ---- step D: what the second instruction does to the beliefs --------------------
\* the look-ahead of the LDA rule: peeks at the raw lines after second
LookAhead(st) ==
  LET c == st.code
      p1 == st.nxt   p2 == st.nxt + 1   p3 == st.nxt + 2
      loads == {"LDA", "LDX", "LDY"}
  IN /\ IsI(c, p1)
     /\ \/ c[p1].mn = "CMP"
        \/ /\ c[p1].mn = "STA" /\ p2 <= Len(c)
           /\ \/ c[p2].k = "i" /\ c[p2].mn \in loads
              \/ c[p2].k = "d" /\ IsI(c, p3) /\ c[p3].mn \in loads
DropIf(b, cond) == IF b # None /\ cond THEN None ELSE b
ShiftMns == {"LSR", "ASL", "ROL", "ROR"}     \* (overridden only by the mutation demonstration of the self-tests)
\* returns [st, rm]: the new beliefs and whether the second instruction is removed
StepD(st, i2) ==
  LET mn == i2.mn   o == i2.op IN
  CASE mn = "LDA" ->
         [st |-> [st EXCEPT !.acc = o, !.flags = "A"],
          rm |-> st.acc = o /\ ~i2.prot /\ (st.flags = "A" \/ LookAhead(st))]
    [] mn = "LDX" ->
         [st |-> [st EXCEPT !.acc = DropIf(st.acc, EndsX(st.acc)), !.yr = DropIf(st.yr, EndsX(st.yr)), !.xr = o, !.flags = "X"],
          rm |-> st.xr = o /\ ~i2.prot /\ st.flags = "X"]
    [] mn = "LDY" ->
         [st |-> [st EXCEPT !.acc = DropIf(st.acc, EndsY(st.acc)), !.xr = DropIf(st.xr, EndsY(st.xr)), !.yr = o, !.flags = "Y"],
          rm |-> st.yr = o /\ ~i2.prot /\ st.flags = "Y"]
    [] mn \in {"INC", "DEC"} ->
         [st |-> [st EXCEPT !.acc = DropIf(st.acc, ~IsImm(st.acc)), !.xr = DropIf(st.xr, ~IsImm(st.xr)), !.yr = DropIf(st.yr, ~IsImm(st.yr)), !.flags = "Unknown"],
          rm |-> FALSE]      \* memory is modified: like a store, under whatever spelling the cell is known
    [] mn \in {"INX", "DEX"} ->
         [st |-> [st EXCEPT !.acc = DropIf(st.acc, EndsX(st.acc)), !.yr = DropIf(st.yr, EndsX(st.yr)), !.xr = None, !.flags = "Unknown"], rm |-> FALSE]
    [] mn \in {"INY", "DEY"} ->
         [st |-> [st EXCEPT !.acc = DropIf(st.acc, EndsY(st.acc)), !.xr = DropIf(st.xr, EndsY(st.xr)), !.yr = None, !.flags = "Unknown"], rm |-> FALSE]
    [] mn = "TAX" ->
         [st |-> [st EXCEPT !.flags = "X", !.xr = IF EndsX(st.acc) THEN None ELSE st.acc, !.acc = DropIf(st.acc, EndsX(st.acc)), !.yr = DropIf(st.yr, EndsX(st.yr))], rm |-> FALSE]
    [] mn = "TAY" ->
         [st |-> [st EXCEPT !.flags = "Y", !.yr = IF EndsY(st.acc) THEN None ELSE st.acc, !.acc = DropIf(st.acc, EndsY(st.acc)), !.xr = DropIf(st.xr, EndsY(st.xr))], rm |-> FALSE]
    [] mn = "TXA" -> [st |-> [st EXCEPT !.acc = st.xr, !.flags = "A"], rm |-> FALSE]
    [] mn = "TYA" -> [st |-> [st EXCEPT !.acc = st.yr, !.flags = "A"], rm |-> FALSE]
    [] mn \in {"STA", "STX", "STY"} ->
         [st |-> [st EXCEPT !.acc = DropIf(st.acc, ~IsImm(st.acc)), !.xr = DropIf(st.xr, ~IsImm(st.xr)), !.yr = DropIf(st.yr, ~IsImm(st.yr))], rm |-> FALSE]
    [] mn \in {"ADC", "SBC", "EOR", "AND", "ORA", "PLA"} -> [st |-> [st EXCEPT !.acc = None, !.flags = "A"], rm |-> FALSE]
    [] mn = "PHA" -> [st |-> [st EXCEPT !.acc = None], rm |-> FALSE]
    [] mn \in ShiftMns ->      \* on A or on memory
         [st |-> [st EXCEPT !.acc = None, !.xr = DropIf(st.xr, o.m # "none" /\ ~IsImm(st.xr)), !.yr = DropIf(st.yr, o.m # "none" /\ ~IsImm(st.yr)), !.flags = "Unknown"], rm |-> FALSE]
    [] mn \in {"JSR", "JMP"} -> [st |-> Forget(st), rm |-> FALSE]
    [] mn \in {"CPX", "CPY", "CMP", "PLP"} -> [st |-> [st EXCEPT !.flags = "Unknown"], rm |-> FALSE]
    [] OTHER -> [st |-> st, rm |-> FALSE]

\* ---- one iteration of the main loop ------------------------------------------------
Step(st0) ==
  LET stB == StepB(StepA(st0)) IN
  IF stB.done THEN stB
  ELSE
    LET c == stB.code
        i1 == c[stB.first]   i2 == c[stB.second]
        both == RemoveBoth(stB, i1, i2)
        sec0 == RemoveSecondC(i1, i2)
        d == IF ~sec0 /\ ~both THEN StepD(stB, i2) ELSE [st |-> stB, rm |-> FALSE]
        st == d.st
        sec == sec0 \/ d.rm
    IN IF SwapBoth(i1, i2)
       THEN [st EXCEPT !.code = [c EXCEPT ![stB.first] = i2, ![stB.second] = i1], !.acc = None]
       ELSE IF both
       THEN LET c2 == [c EXCEPT ![stB.first] = Dummy, ![stB.second] = Dummy]
                n1 == NextIdx(c2, st.nxt)
                f == SkipToInstr(c2, n1.i, n1.nxt)
            IN IF f.i = 0 THEN [st EXCEPT !.code = c2, !.removed = @ + 2, !.done = TRUE]
               ELSE LET s == NextIdx(c2, f.nxt)
                        st2 == Forget([st EXCEPT !.code = c2, !.removed = @ + 2, !.first = f.i, !.second = s.i, !.nxt = s.nxt])
                    IN Analyze(st2, c2[f.i], FALSE)
       ELSE IF sec
       THEN LET s == NextIdx(c, st.nxt)
            IN [st EXCEPT !.code = [c EXCEPT ![stB.second] = Dummy], !.removed = @ + 1, !.second = s.i, !.nxt = s.nxt]
       ELSE IF RemoveFirst(i1, i2)
       THEN LET s == NextIdx(c, st.nxt)
            IN [st EXCEPT !.code = [c EXCEPT ![stB.first] = Dummy], !.removed = @ + 1, !.first = stB.second, !.second = s.i, !.nxt = s.nxt]
       ELSE LET s == NextIdx(c, st.nxt) IN [st EXCEPT !.first = stB.second, !.second = s.i, !.nxt = s.nxt]

RECURSIVE RunFrom(_, _)
RunFrom(st, fuel) == IF st.done \/ fuel = 0 THEN st ELSE RunFrom(Step(st), fuel - 1)
Opt(c) == RunFrom(InitState(c), 4 * Len(c) + 4)

\* =========================================================================
\* What the beliefs promise: a value semantics of straight-line code.
\* Machine: A, X, Y, carry, a stack, memory cells addressed by operand:
\* scalars by name; arrays "arr"/"tab" of 3 elements indexed modulo 3 by X or Y
\* (no operand of this semantics aliases another one under a different
\* spelling: aliasing is the business of the program-level families).
\* Two promises are checked (MCPeephole): VALUES - removing instructions does
\* not change any register, memory cell, the stack or the carry at the end of
\* the sequence (N and Z at the end may differ: several pair rules, e.g. STA v;
\* LDA v, rely on the generator never branching on them) - and BELIEFS - when
\* the scan runs off the end of the code, each belief it holds (register =
\* operand, flags describe register) is true of the machine.
\* =========================================================================
Cell(o, m) == CASE o.m = "abs" -> <<o.b, 0>>
                [] o.m = "x" -> <<o.b, m.X % 3>>
                [] o.m = "y" -> <<o.b, m.Y % 3>>
ImmVal == [i \in {"0", "1", "2", "5"} |-> CASE i = "0" -> 0 [] i = "1" -> 1 [] i = "2" -> 2 [] i = "5" -> 5]
Rd(o, m) == IF o.m = "imm" THEN ImmVal[o.b] ELSE m.mem[Cell(o, m)]
W8(x) == x % 256
NZ(m, v) == [m EXCEPT !.Z = IF v = 0 THEN 1 ELSE 0, !.N = v \div 128]
Exec(line, m) ==
  IF line.k = "a" THEN NZ([m EXCEPT !.A = W8(@ + 3), !.X = W8(@ + 5), !.Y = W8(@ + 7), !.C = 1 - @], 1)     \* inline assembly: "anything"
  ELSE IF line.k # "i" THEN m ELSE
  LET mn == line.mn   o == line.op IN
  CASE mn = "LDA" -> NZ([m EXCEPT !.A = Rd(o, m)], Rd(o, m))
    [] mn = "LDX" -> NZ([m EXCEPT !.X = Rd(o, m)], Rd(o, m))
    [] mn = "LDY" -> NZ([m EXCEPT !.Y = Rd(o, m)], Rd(o, m))
    [] mn = "STA" -> [m EXCEPT !.mem[Cell(o, m)] = m.A]
    [] mn = "STX" -> [m EXCEPT !.mem[Cell(o, m)] = m.X]
    [] mn = "STY" -> [m EXCEPT !.mem[Cell(o, m)] = m.Y]
    [] mn = "TAX" -> NZ([m EXCEPT !.X = m.A], m.A)
    [] mn = "TAY" -> NZ([m EXCEPT !.Y = m.A], m.A)
    [] mn = "TXA" -> NZ([m EXCEPT !.A = m.X], m.X)
    [] mn = "TYA" -> NZ([m EXCEPT !.A = m.Y], m.Y)
    [] mn = "INX" -> NZ([m EXCEPT !.X = W8(@ + 1)], W8(m.X + 1))
    [] mn = "DEX" -> NZ([m EXCEPT !.X = W8(@ + 255)], W8(m.X + 255))
    [] mn = "INY" -> NZ([m EXCEPT !.Y = W8(@ + 1)], W8(m.Y + 1))
    [] mn = "DEY" -> NZ([m EXCEPT !.Y = W8(@ + 255)], W8(m.Y + 255))
    [] mn = "INC" -> NZ([m EXCEPT !.mem[Cell(o, m)] = W8(@ + 1)], W8(m.mem[Cell(o, m)] + 1))
    [] mn = "DEC" -> NZ([m EXCEPT !.mem[Cell(o, m)] = W8(@ + 255)], W8(m.mem[Cell(o, m)] + 255))
    [] mn = "ADC" -> LET s == m.A + Rd(o, m) + m.C IN NZ([m EXCEPT !.A = W8(s), !.C = IF s > 255 THEN 1 ELSE 0], W8(s))
    [] mn = "ORA" -> LET r == IF Rd(o, m) = 0 THEN m.A ELSE 255 IN NZ([m EXCEPT !.A = r], r)     \* only ORA #0 and a saturating stand-in are needed
    [] mn = "CLC" -> [m EXCEPT !.C = 0]
    [] mn = "SEC" -> [m EXCEPT !.C = 1]
    [] mn \in {"CMP", "CPX", "CPY"} -> LET r == IF mn = "CMP" THEN m.A ELSE IF mn = "CPX" THEN m.X ELSE m.Y
                                       IN NZ([m EXCEPT !.C = IF r >= Rd(o, m) THEN 1 ELSE 0], W8(r + 256 - Rd(o, m)))
    [] mn \in {"ASL", "LSR", "ROL"} ->
         LET v == IF o.m = "none" THEN m.A ELSE m.mem[Cell(o, m)]
             r == CASE mn = "ASL" -> W8(2 * v) [] mn = "LSR" -> v \div 2 [] mn = "ROL" -> W8(2 * v + m.C)
             c == IF mn = "LSR" THEN v % 2 ELSE v \div 128
         IN NZ(IF o.m = "none" THEN [m EXCEPT !.A = r, !.C = c] ELSE [m EXCEPT !.mem[Cell(o, m)] = r, !.C = c], r)
    [] mn = "PHA" -> [m EXCEPT !.stk = <<m.A>> \o @]
    [] mn = "PLA" -> LET v == IF m.stk = <<>> THEN 0 ELSE Head(m.stk) IN NZ([m EXCEPT !.A = v, !.stk = IF @ = <<>> THEN @ ELSE Tail(@)], v)
    [] OTHER -> m
RECURSIVE ExecAll(_, _, _)
ExecAll(c, i, m) == IF i > Len(c) THEN m ELSE ExecAll(c, i + 1, Exec(c[i], m))

\* the beliefs of a final scan state st are true of machine state m (the end of the optimised code)
Holds(b, reg, m) == b # None => reg = Rd(b, m)
FlagsOf(v) == [Z |-> IF v = 0 THEN 1 ELSE 0, N |-> v \div 128]
BeliefsHold(st, m) ==
  /\ Holds(st.acc, m.A, m) /\ Holds(st.xr, m.X, m) /\ Holds(st.yr, m.Y, m)
  /\ st.flags = "A" => [Z |-> m.Z, N |-> m.N] = FlagsOf(m.A)
  /\ st.flags = "X" => [Z |-> m.Z, N |-> m.N] = FlagsOf(m.X)
  /\ st.flags = "Y" => [Z |-> m.Z, N |-> m.N] = FlagsOf(m.Y)
=============================================================================
