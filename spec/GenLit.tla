------------------------------- MODULE GenLit -------------------------------
(***************************************************************************)
(* Layer 3 generator for C09: literal bodies over the symbol alphabet of    *)
(* Lexer.tla, placed in a context, printed with the bytes Lexer prescribes. *)
(***************************************************************************)
EXTENDS Lexer, Json
CONSTANTS MaxLen, Alphabet
VARIABLES body, ctx, done
vars == <<body, ctx, done>>
Contexts == {"init", "ptrtable", "concat", "callarg", "asm", "twoline", "aftercode", "inif", "afterskipped", "afterelse", "twocalls", "subscript", "charconst"}
Init == body = <<>> /\ ctx = "" /\ done = FALSE
Next == /\ ~done
        /\ \/ Len(body) < MaxLen /\ \E x \in Alphabet : body' = Append(body, x) /\ UNCHANGED <<ctx, done>>
           \/ \E c \in Contexts : ctx' = c /\ done' = TRUE /\ UNCHANGED body
              /\ (c = "charconst" => Len(body) = 1 /\ Len(LitSyms[body[1]].b) = 1)
              /\ (c # "charconst" => \A i \in 1..Len(body) : body[i] # "dq")
              /\ (c = "asm" => \A i \in 1..Len(body) : body[i] \notin {"e0", "en", "er"})
Spec == Init /\ [][Next]_vars
Raw == [i \in 1..Len(body) |-> LitSyms[body[i]].raw]
Emit == done => PrintT("CASE " \o ToJson([body |-> body, raw |-> Raw, ctx |-> ctx,
                                           bytes |-> IF ctx = "charconst" THEN <<CharValue(body[1])>> ELSE LiteralBytes(body)]))
=============================================================================
