------------------------------ MODULE GenCalc ------------------------------
(***************************************************************************)
(* Layer 3 generator for C10: constant-expression token strings with the    *)
(* value Calc.tla assigns to them, placed in a syntactic position that      *)
(* takes a constant.                                                        *)
(***************************************************************************)
EXTENDS Calc, Json
Bin == {"*", "/", "+", "-", "<<", ">>", "<", "<=", ">", ">=", "==", "!=", "&", "^", "|", "&&", "||"}
Un == {"-", "!", "~"}
Triples == {<<7, 3, 2>>, <<1, 2, 1>>, <<6, 3, 3>>, <<0, 1, 0>>, <<12, 4, 5>>, <<2, 2, 2>>}
Nf(v, f) == [t |-> "n", v |-> v, form |-> f]

Pair == {<<N(p[1]), O(o1), N(p[2]), O(o2), N(p[3])>> : o1 \in Bin, o2 \in Bin, p \in Triples}
ParL == {<<O("("), N(p[1]), O(o1), N(p[2]), O(")"), O(o2), N(p[3])>> : o1 \in Bin, o2 \in Bin, p \in {<<7, 3, 2>>, <<1, 2, 1>>}}
ParR == {<<N(p[1]), O(o1), O("("), N(p[2]), O(o2), N(p[3]), O(")")>> : o1 \in Bin, o2 \in Bin, p \in {<<7, 3, 2>>, <<1, 2, 1>>}}
Pre == {<<O(u), N(a), O(o), N(b)>> : u \in Un, o \in Bin, a \in {0, 1, 5}, b \in {0, 2}}
       \cup {<<N(a), O(o), O(u), N(b)>> : u \in Un, o \in Bin, a \in {0, 6}, b \in {0, 1, 3}}
       \cup {<<O(u1), O(u2), N(a)>> : u1 \in Un, u2 \in Un, a \in {0, 1, 9}}
       \cup {<<O(u), N(a)>> : u \in Un, a \in {0, 1, 2, 255}}
Chain == {<<N(20), O(o), N(6), O(o), N(2), O(o), N(1)>> : o \in Bin}
Tern == {<<N(c), O("?"), N(1), O(":"), N(d), O("?"), N(2), O(":"), N(3)>> : c \in {0, 1}, d \in {0, 1}}
        \cup {<<N(c), O("?"), N(d), O("?"), N(5), O(":"), N(6), O(":"), N(7)>> : c \in {0, 1}, d \in {0, 1}}
        \cup {<<N(c), O(o), N(1), O("?"), N(4), O(":"), N(9)>> : c \in {0, 1, 2}, o \in {"==", "<", "+", "&&", "|"}}
        \cup {<<N(c), O("?"), N(4), O(":"), N(9), O(o), N(1)>> : c \in {0, 1}, o \in {"+", "*", "==", "||"}}
Edge == {<<N(300), O("*"), N(300)>>, <<N(65535), O("+"), N(1)>>, <<N(1), O("<<"), N(15)>>, <<N(256), O("*"), N(256), O("*"), N(256)>>,
         <<N(30000), O("*"), N(30000), O("*"), N(30000)>>, <<N(32767), O("+"), N(32767), O("+"), N(32767)>>, <<N(1), O("<<"), N(14), O("<<"), N(14)>>,
         <<N(5), O("/"), N(0)>>, <<N(5), O("/"), O("("), N(3), O("-"), N(3), O(")")>>, <<N(0), O("/"), N(0)>>, <<N(1), O("+"), N(7), O("/"), O("!"), N(1)>>,
         <<N(65535)>>, <<N(65536)>>, <<N(70000)>>, <<O("-"), N(32768)>>, <<O("-"), N(32769)>>, <<N(255), O("+"), N(1)>>, <<N(200), O("+"), N(100)>>,
         <<N(39999), O("*"), N(39999)>>, <<N(1000), O("*"), N(1000), O("/"), N(1000)>>,
         \* shifts whose result leaves 32 bits (an error is required) next to the largest that fit
         <<N(65536), O("<<"), N(15)>>, <<N(65535), O("<<"), N(15)>>, <<N(16384), O("<<"), N(15), O("<<"), N(3)>>, <<O("("), N(16384), O("<<"), N(15), O("<<"), N(3), O(")"), O("+"), N(3)>>,
         <<O("("), N(32768), O("<<"), N(15), O("<<"), N(2), O(")"), O("+"), N(3)>>, <<N(1), O("<<"), N(15), O("<<"), N(15), O("<<"), N(1)>>, <<N(3), O("<<"), N(15), O("<<"), N(15)>>}
Forms == {<<Nf(10, f1), O(o), Nf(8, f2)>> : f1 \in {"dec", "hex", "oct", "chr"}, f2 \in {"dec", "hex", "oct", "chr"}, o \in {"+", "-", "*", "&", "<"}}
         \cup {<<Nf(v, f)>> : v \in {0, 7, 8, 9, 65, 255}, f \in {"hex", "oct"}} \cup {<<Nf(v, "chr")>> : v \in {48, 65, 97, 126, 10, 9, 0, 92, 39}}

Exprs == Pair \cup ParL \cup ParR \cup Pre \cup Chain \cup Tern \cup Edge \cup Forms
\* stmt8 / stmt16: the expression is the right-hand side of an assignment statement to an unsigned char / a short
\* ("constant sub-expressions folded inside statements"): the stored value is the C value modulo 2^8 / 2^16
Positions == {"init", "arrsize", "arrelem", "aligned", "asmsize", "stmt8", "stmt16"}
VARIABLES e, pos
Init == e \in Exprs /\ pos \in Positions
Next == UNCHANGED <<e, pos>>
\* objects declared by the driver's header for the sizeof cases: name -> [kind, elemBytes, n]
SzObjects == [sc1 |-> <<"scalar", 1, 1>>, sh1 |-> <<"scalar", 2, 1>>, arr8 |-> <<"array", 1, 8>>, sarr4 |-> <<"array", 2, 4>>, ptr1 |-> <<"pointer", 2, 1>>,
              ptab3 |-> <<"array", 2, 3>>, ctab5 |-> <<"array", 1, 5>>]
EmitSizeof == /\ \A n \in DOMAIN SzObjects : PrintT("SIZEOF " \o ToJson([what |-> n, size |-> SizeOfObject(SzObjects[n][1], SzObjects[n][2], SzObjects[n][3])]))
              /\ \A ty \in DOMAIN SizeOfType : PrintT("SIZEOF " \o ToJson([what |-> ty, size |-> SizeOfType[ty]]))
ASSUME EmitSizeof
Emit == LET r == Eval(e) IN PrintT("CASE " \o ToJson([tokens |-> e, pos |-> pos, v |-> r.v, bad |-> r.bad, big |-> r.big]))
=============================================================================
