------------------------------- MODULE CppImpl -------------------------------
(***************************************************************************)
(* Layer 2: the conditional machine of cpp::process AS CODED: one of three  *)
(* states (Active: text passes; Inactive: no branch of the current group    *)
(* selected yet; Skip: a branch was already selected, or the group is       *)
(* nested in a region that is not active) and a stack of saved states.      *)
(* One operator per directive, each returning the successor configuration   *)
(* [state, stack]; c is the truth of the directive's condition, which the   *)
(* code consults only in the state named in the comment.                    *)
(***************************************************************************)
EXTENDS Integers, Sequences
States == {"active", "inactive", "skip"}
Cfg(st, sk) == [state |-> st, stack |-> sk]
Start == Cfg("active", <<>>)
\* #if / #ifdef / #ifndef  (condition consulted only when Active)
Open(g, c) == Cfg(IF g.state = "active" THEN (IF c THEN "active" ELSE "inactive") ELSE "skip", Append(g.stack, g.state))
\* #elif  (condition consulted only when Inactive)
Elif(g, c) == Cfg(IF g.state = "inactive" THEN (IF c THEN "active" ELSE "inactive") ELSE "skip", g.stack)
Else(g) == Cfg(IF g.state = "inactive" THEN "active" ELSE "skip", g.stack)
\* #endif  (enabled only with a non-empty stack; otherwise the code reports an error)
Endif(g) == Cfg(g.stack[Len(g.stack)], SubSeq(g.stack, 1, Len(g.stack) - 1))
\* text lines are emitted, and #define/#undef/#include/#error take effect, iff state = "active"
Effective(g) == g.state = "active"
=============================================================================
