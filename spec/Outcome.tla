------------------------------- MODULE Outcome -------------------------------
(***************************************************************************)
(* C16: compilation is total.  The pipeline is a stage machine              *)
(*   Preprocess -> Parse -> Declare -> Generate -> Optimise -> Repair ->    *)
(*   Publish -> Done                                                        *)
(* whose only terminal states are Ok (a result) and Err (a structured error *)
(* whose file is one of the input files and whose line lies inside it).     *)
(* "panic", "abort" (stack overflow / process death) and "timeout" are not  *)
(* states of this specification.  Recorded outcomes of real compilations    *)
(* are validated against it (trace validation, one event per compilation):  *)
(* the trace is accepted iff every outcome is a terminal state.             *)
(* Outcomes that are not accepted are printed as  BAD {json}.               *)
(***************************************************************************)
EXTENDS Integers, Sequences, Json, IOUtils, TLC
Rec == ndJsonDeserialize(IOEnv.OBS)
Located(o) == /\ o.kind \in {"syntax", "compiler"}
              /\ o.fileknown                       \* the file named is one of the input files
              /\ o.line >= 1 /\ o.line <= o.nlines \* the line lies inside that file
\* structured errors that carry no location at all (configuration / unimplemented feature)
Unlocated(o) == o.kind \in {"unimplemented", "configuration"}
Terminal(o) == \/ o.status = "ok"
               \/ o.status = "err" /\ (Located(o) \/ Unlocated(o))
VARIABLE l
Init == l = 1
Next == l <= Len(Rec) /\ l' = l + 1
Report == l <= Len(Rec) => (Terminal(Rec[l]) \/ PrintT("BAD " \o ToJson([n |-> Rec[l].n, status |-> Rec[l].status])))
=============================================================================
