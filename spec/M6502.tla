------------------------------- MODULE M6502 -------------------------------
(***************************************************************************)
(* The target machine: an NMOS 6502 executing a linked instruction list.    *)
(* Layer 1 (oracle).  Written functionally: Step(m, cx) maps a machine      *)
(* record to its successor, so that checker specifications can run one or   *)
(* several executions inside one behaviour.                                 *)
(*                                                                          *)
(* cx (context) = [code |-> sequence of instruction records                 *)
(*                          [op, syn, a, t]  (mnemonic, operand syntax,     *)
(*                          operand value, index of the target for          *)
(*                          branches/JMP/JSR),                              *)
(*                 regions |-> sequence of [lo, hi, kind, delta]]           *)
(* Memory classes (kind): "ram", "rom", "io" (accesses are logged),         *)
(* "rdport" / "wrport" (split-port cartridge RAM: the cell behind address a *)
(* is a + delta; reading a write port or writing a read port is a fault, as *)
(* is any read-modify-write instruction on either).                         *)
(* Not modelled: decimal mode, interrupts, undocumented opcodes, the        *)
(* page-crossing cycle penalty, the stack page as memory.                   *)
(***************************************************************************)
EXTENDS Enc6502, Sequences, Bitwise

B(b) == IF b THEN 1 ELSE 0

NoRegion == [lo |-> 0, hi |-> 0, kind |-> "unmapped", delta |-> 0]
Region(cx, a) ==
  LET S == {i \in 1..Len(cx.regions) : cx.regions[i].lo <= a /\ a <= cx.regions[i].hi}
  IN IF S = {} THEN NoRegion ELSE cx.regions[CHOOSE i \in S : \A j \in S : i <= j]

\* Reading address a: value, faults raised, io events produced.
Read(m, cx, a) ==
  LET r == Region(cx, a)
      cell == a + r.delta
      ok == r.kind \in {"ram", "rom", "io", "rdport"} /\ cell \in DOMAIN m.mem
      v == IF ok THEN m.mem[cell] ELSE 0
  IN [v |-> v,
      f |-> IF ok THEN {}
            ELSE IF r.kind = "wrport" THEN {"readOfWritePort"} ELSE {"unmapped"},
      io |-> IF r.kind = "io" THEN <<[rw |-> "r", addr |-> a, val |-> v]>> ELSE <<>>]

\* Writing v to address a: new memory, faults, io events.
Write(m, cx, a, v) ==
  LET r == Region(cx, a)
      cell == a + r.delta
      ok == r.kind \in {"ram", "io", "wrport"} /\ cell \in DOMAIN m.mem
  IN [mem |-> IF ok THEN [m.mem EXCEPT ![cell] = v] ELSE m.mem,
      f |-> IF ok THEN {}
            ELSE IF r.kind = "rdport" THEN {"writeToReadPort"}
            ELSE IF r.kind = "rom" THEN {"writeToRom"} ELSE {"unmapped"},
      io |-> IF r.kind = "io" THEN <<[rw |-> "w", addr |-> a, val |-> v]>> ELSE <<>>]

SetNZ(m, v) == [m EXCEPT !.Z = B(v = 0), !.N = B(v >= 128)]
Halt(m, f) == [m EXCEPT !.halted = TRUE, !.fault = @ \cup f]

\* Effective address of instruction I under mode; pointer bytes are read through Read.
EaOf(m, cx, I, mode) ==
  CASE mode \in {"zp", "abs"} -> I.a
    [] mode = "zpx"  -> (I.a + m.X) % 256
    [] mode = "zpy"  -> (I.a + m.Y) % 256
    [] mode = "absx" -> (I.a + m.X) % 65536
    [] mode = "absy" -> (I.a + m.Y) % 65536
    [] mode = "indy" -> (Read(m, cx, I.a).v + 256 * Read(m, cx, (I.a + 1) % 256).v + m.Y) % 65536
    [] mode = "indx" -> Read(m, cx, (I.a + m.X) % 256).v + 256 * Read(m, cx, (I.a + m.X + 1) % 256).v
    [] OTHER -> 0
PtrFaults(m, cx, I, mode) ==
  CASE mode = "indy" -> Read(m, cx, I.a).f \cup Read(m, cx, (I.a + 1) % 256).f
    [] mode = "indx" -> Read(m, cx, (I.a + m.X) % 256).f \cup Read(m, cx, (I.a + m.X + 1) % 256).f
    [] OTHER -> {}

Adc(m, v) ==
  LET s == m.A + v + m.C
      r == s % 256
  IN [SetNZ(m, r) EXCEPT !.A = r, !.C = B(s >= 256),
                          !.V = B((m.A >= 128) = (v >= 128) /\ (r >= 128) # (m.A >= 128))]
Cmp(m, reg, v) == [SetNZ(m, (reg - v + 256) % 256) EXCEPT !.C = B(reg >= v)]

Shift(op, v, c) ==  \* result and carry out
  CASE op = "ASL" -> [r |-> (2 * v) % 256, c |-> B(v >= 128)]
    [] op = "ROL" -> [r |-> ((2 * v) % 256) + c, c |-> B(v >= 128)]
    [] op = "LSR" -> [r |-> v \div 2, c |-> v % 2]
    [] op = "ROR" -> [r |-> (v \div 2) + 128 * c, c |-> v % 2]

Taken(m, op) ==
  CASE op = "BCC" -> m.C = 0 [] op = "BCS" -> m.C = 1
    [] op = "BEQ" -> m.Z = 1 [] op = "BNE" -> m.Z = 0
    [] op = "BMI" -> m.N = 1 [] op = "BPL" -> m.N = 0
    [] op = "BVC" -> m.V = 0 [] op = "BVS" -> m.V = 1

FlagsByte(m) == m.C + 2 * m.Z + 64 * m.V + 128 * m.N + 48

MaxStack == 48

\* One instruction.  m is not halted and m.pc is within the code.
Exec(m, cx) ==
  LET I == cx.code[m.pc]
      op == I.op
      known == op \in Mnemonics /\ I.syn \in Syntaxes
      mode == IF known THEN ResolveMode(op, I.syn, I.a) ELSE "imp"
      legal == known /\ Legal(op, mode)
      isMem == mode \in {"zp", "zpx", "zpy", "abs", "absx", "absy", "indx", "indy"}
      ea == EaOf(m, cx, I, mode)
      rd == IF mode = "imm" THEN [v |-> I.a % 256, f |-> {}, io |-> <<>>]
            ELSE IF isMem THEN Read(m, cx, ea) ELSE [v |-> 0, f |-> {}, io |-> <<>>]
      pf == PtrFaults(m, cx, I, mode)
      \* an instruction the compiler marked `protected` (explicit load / store / strobe / csleep accesses, loads kept for their flags):
      \* its memory access is recorded, whatever the cell - the optimiser may never remove, duplicate or reorder such an instruction
      prot == "p" \in DOMAIN I /\ I.p = 1
      m0 == [m EXCEPT !.pc = @ + 1, !.steps = @ + 1,
                      !.cyc = @ + Cycles(op, mode) + (IF op \in Branches /\ Taken(m, op) THEN 1 ELSE 0),
                      !.xio = IF prot /\ isMem THEN Append(@, [op |-> op, addr |-> ea]) ELSE @]
      \* helper: after an instruction that read its operand
      R(mm) == [mm EXCEPT !.fault = @ \cup rd.f \cup pf, !.io = @ \o rd.io]
      \* helper: store v at ea
      W(mm, v) == LET w == Write(mm, cx, ea, v)
                  IN [mm EXCEPT !.mem = w.mem, !.fault = @ \cup w.f \cup pf, !.io = @ \o w.io]
      rmwPort == isMem /\ Region(cx, ea).kind \in {"rdport", "wrport"}
  IN
  IF ~legal THEN Halt(m, {IF known THEN "illegalMode" ELSE "opaque"})
  ELSE
  CASE op = "LDA" -> R([SetNZ(m0, rd.v) EXCEPT !.A = rd.v])
    [] op = "LDX" -> R([SetNZ(m0, rd.v) EXCEPT !.X = rd.v])
    [] op = "LDY" -> R([SetNZ(m0, rd.v) EXCEPT !.Y = rd.v])
    [] op = "STA" -> W(m0, m.A)
    [] op = "STX" -> W(m0, m.X)
    [] op = "STY" -> W(m0, m.Y)
    [] op = "TAX" -> [SetNZ(m0, m.A) EXCEPT !.X = m.A]
    [] op = "TAY" -> [SetNZ(m0, m.A) EXCEPT !.Y = m.A]
    [] op = "TXA" -> [SetNZ(m0, m.X) EXCEPT !.A = m.X]
    [] op = "TYA" -> [SetNZ(m0, m.Y) EXCEPT !.A = m.Y]
    [] op = "ADC" -> R(Adc(m0, rd.v))
    [] op = "SBC" -> R(Adc(m0, 255 - rd.v))
    [] op = "AND" -> (LET r == m.A & rd.v IN R([SetNZ(m0, r) EXCEPT !.A = r]))
    [] op = "ORA" -> (LET r == m.A | rd.v IN R([SetNZ(m0, r) EXCEPT !.A = r]))
    [] op = "EOR" -> (LET r == m.A ^^ rd.v IN R([SetNZ(m0, r) EXCEPT !.A = r]))
    [] op = "CMP" -> R(Cmp(m0, m.A, rd.v))
    [] op = "CPX" -> R(Cmp(m0, m.X, rd.v))
    [] op = "CPY" -> R(Cmp(m0, m.Y, rd.v))
    [] op = "BIT" -> R([m0 EXCEPT !.Z = B((m.A & rd.v) = 0), !.N = B(rd.v >= 128), !.V = B((rd.v \div 64) % 2 = 1)])
    [] op \in Shifts ->
         (IF mode = "acc"
          THEN LET s == Shift(op, m.A, m.C) IN [SetNZ(m0, s.r) EXCEPT !.A = s.r, !.C = s.c]
          ELSE IF rmwPort THEN Halt(m, {"rmwOnSplitRam"})
          ELSE LET s == Shift(op, rd.v, m.C) IN W(R([SetNZ(m0, s.r) EXCEPT !.C = s.c]), s.r))
    [] op \in IncDec ->
         (IF rmwPort THEN Halt(m, {"rmwOnSplitRam"})
          ELSE LET r == IF op = "INC" THEN (rd.v + 1) % 256 ELSE (rd.v + 255) % 256
               IN W(R(SetNZ(m0, r)), r))
    [] op = "INX" -> (LET r == (m.X + 1) % 256 IN [SetNZ(m0, r) EXCEPT !.X = r])
    [] op = "DEX" -> (LET r == (m.X + 255) % 256 IN [SetNZ(m0, r) EXCEPT !.X = r])
    [] op = "INY" -> (LET r == (m.Y + 1) % 256 IN [SetNZ(m0, r) EXCEPT !.Y = r])
    [] op = "DEY" -> (LET r == (m.Y + 255) % 256 IN [SetNZ(m0, r) EXCEPT !.Y = r])
    [] op \in Branches -> (IF Taken(m, op) THEN [m0 EXCEPT !.pc = I.t] ELSE m0)
    [] op = "JMP" -> (IF mode = "abs" THEN [m0 EXCEPT !.pc = I.t] ELSE Halt(m, {"unsupported"}))
    [] op = "JSR" -> (IF Len(m.stk) >= MaxStack THEN Halt(m, {"stackOverflow"})
                      ELSE [m0 EXCEPT !.pc = I.t, !.stk = <<[k |-> "r", v |-> m.pc + 1]>> \o @])
    [] op = "RTS" -> (IF m.stk = <<>> THEN [m0 EXCEPT !.pc = m.pc, !.halted = TRUE]
                      ELSE IF Head(m.stk).k = "r" THEN [m0 EXCEPT !.pc = Head(m.stk).v, !.stk = Tail(@)]
                      ELSE Halt(m, {"stackMismatch"}))
    [] op = "PHA" -> (IF Len(m.stk) >= MaxStack THEN Halt(m, {"stackOverflow"})
                      ELSE [m0 EXCEPT !.stk = <<[k |-> "b", v |-> m.A]>> \o @])
    [] op = "PHP" -> (IF Len(m.stk) >= MaxStack THEN Halt(m, {"stackOverflow"})
                      ELSE [m0 EXCEPT !.stk = <<[k |-> "b", v |-> FlagsByte(m)]>> \o @])
    [] op = "PLA" -> (IF m.stk # <<>> /\ Head(m.stk).k = "b"
                      THEN [SetNZ(m0, Head(m.stk).v) EXCEPT !.A = Head(m.stk).v, !.stk = Tail(@)]
                      ELSE Halt(m, {"stackMismatch"}))
    [] op = "PLP" -> (IF m.stk # <<>> /\ Head(m.stk).k = "b"
                      THEN LET p == Head(m.stk).v
                           IN [m0 EXCEPT !.C = p % 2, !.Z = (p \div 2) % 2, !.V = (p \div 64) % 2,
                                         !.N = (p \div 128) % 2, !.stk = Tail(@)]
                      ELSE Halt(m, {"stackMismatch"}))
    [] op = "CLC" -> [m0 EXCEPT !.C = 0]
    [] op = "SEC" -> [m0 EXCEPT !.C = 1]
    [] op = "CLV" -> [m0 EXCEPT !.V = 0]
    [] op \in {"NOP", "CLD", "CLI", "SEI"} -> m0
    [] OTHER -> Halt(m, {"unsupported"})   \* BRK RTI SED TXS TSX

Step(m, cx) ==
  IF m.pc < 1 \/ m.pc > Len(cx.code) THEN Halt(m, {"ranOff"}) ELSE Exec(m, cx)

\* A fresh machine.
Machine(pc, a, x, y, c, z, n, v, mem) ==
  [pc |-> pc, A |-> a, X |-> x, Y |-> y, C |-> c, Z |-> z, N |-> n, V |-> v, mem |-> mem,
   stk |-> <<>>, cyc |-> 0, io |-> <<>>, xio |-> <<>>, fault |-> {}, halted |-> FALSE, steps |-> 0]

\* Run at most n steps (used by self-tests and by checkers that need a result, not a behaviour).
RECURSIVE Run(_, _, _)
Run(m, cx, n) == IF m.halted \/ n = 0 THEN m ELSE Run(Step(m, cx), cx, n - 1)
=============================================================================
