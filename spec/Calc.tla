-------------------------------- MODULE Calc --------------------------------
(***************************************************************************)
(* Layer 1: the value C assigns to a constant expression (C10).             *)
(* Input: a token sequence  [t |-> "n", v |-> int, form] | [t |-> "op", s]  *)
(* Grammar: C's - unary - ! ~ bind tightest, then  * /  |  + -  |  << >>  | *)
(* < <= > >=  |  == !=  |  &  |  ^  |  |  |  &&  |  ||  |  ?: (right        *)
(* associative); binary operators left associative; parentheses.            *)
(* Values are mathematical integers; / truncates toward zero; comparisons   *)
(* and logical operators yield 0 or 1.  The result carries                  *)
(*   bad    "" | "div0" | "undef" (shift count out of range, >> of a        *)
(*          negative value: not decided)                                    *)
(*   big    the largest absolute value of any literal or intermediate       *)
(* so that the checker can require an error where values do not fit.        *)
(***************************************************************************)
EXTENDS Integers, Sequences, Bitwise, TLC

Prec(s) == CASE s \in {"*", "/"} -> 10 [] s \in {"+", "-"} -> 9 [] s \in {"<<", ">>"} -> 8
             [] s \in {"<", "<=", ">", ">="} -> 7 [] s \in {"==", "!="} -> 6 [] s = "&" -> 5 [] s = "^" -> 4
             [] s = "|" -> 3 [] s = "&&" -> 2 [] s = "||" -> 1 [] s = "?" -> 0 [] OTHER -> -1
Abs(x) == IF x < 0 THEN -x ELSE x
Max(a, b) == IF a > b THEN a ELSE b
R(v, pos, bad, big) == [v |-> v, pos |-> pos, bad |-> bad, big |-> Max(big, Abs(v))]
Worse(a, b) == IF a # "" THEN a ELSE b
B(b) == IF b THEN 1 ELSE 0
\* two's complement view for the bitwise operators (TLC integers are 32-bit: a 24-bit window is used,
\* operands beyond it make the case undecided, see Apply)
TC(x) == IF x < 0 THEN x + 16777216 ELSE x
UnTC(x) == IF x >= 8388608 THEN x - 16777216 ELSE x
Small(x) == x > -8388608 /\ x < 8388608
Div(a, b) == IF (a >= 0) = (b >= 0) THEN Abs(a) \div Abs(b) ELSE -(Abs(a) \div Abs(b))

Apply(s, a, b) ==   \* -> [v, bad]
  CASE s = "*" -> (IF Abs(a) < 40000 /\ Abs(b) < 40000 THEN [v |-> a * b, bad |-> ""] ELSE [v |-> 0, bad |-> "undef"])
    [] s = "/" -> (IF b = 0 THEN [v |-> 0, bad |-> "div0"] ELSE [v |-> Div(a, b), bad |-> ""])
    [] s = "+" -> [v |-> a + b, bad |-> ""]
    [] s = "-" -> [v |-> a - b, bad |-> ""]
    [] s = "<<" -> (IF b < 0 \/ b > 15 \/ a < 0 THEN [v |-> 0, bad |-> "undef"]
                   ELSE IF b > 0 /\ a >= 2 ^ (31 - b) THEN [v |-> 0, bad |-> "overflow"]        \* the result does not fit 32 bits: an error is required
                   ELSE [v |-> a * (2 ^ b), bad |-> ""])
    [] s = ">>" -> (IF b < 0 \/ b > 15 \/ a < 0 THEN [v |-> 0, bad |-> "undef"] ELSE [v |-> a \div (2 ^ b), bad |-> ""])
    [] s = "<" -> [v |-> B(a < b), bad |-> ""] [] s = "<=" -> [v |-> B(a <= b), bad |-> ""]
    [] s = ">" -> [v |-> B(a > b), bad |-> ""] [] s = ">=" -> [v |-> B(a >= b), bad |-> ""]
    [] s = "==" -> [v |-> B(a = b), bad |-> ""] [] s = "!=" -> [v |-> B(a # b), bad |-> ""]
    [] s = "&" -> (IF Small(a) /\ Small(b) THEN [v |-> UnTC(TC(a) & TC(b)), bad |-> ""] ELSE [v |-> 0, bad |-> "undef"])
    [] s = "^" -> (IF Small(a) /\ Small(b) THEN [v |-> UnTC(TC(a) ^^ TC(b)), bad |-> ""] ELSE [v |-> 0, bad |-> "undef"])
    [] s = "|" -> (IF Small(a) /\ Small(b) THEN [v |-> UnTC(TC(a) | TC(b)), bad |-> ""] ELSE [v |-> 0, bad |-> "undef"])
    [] s = "&&" -> [v |-> B(a # 0 /\ b # 0), bad |-> ""]
    [] s = "||" -> [v |-> B(a # 0 \/ b # 0), bad |-> ""]

IsOp(ts, i, s) == i <= Len(ts) /\ ts[i].t = "op" /\ ts[i].s = s
RECURSIVE Unary(_, _), Expr(_, _, _), Climb(_, _, _)
Unary(ts, i) ==
  IF i > Len(ts) THEN R(0, i, "syntax", 0)
  ELSE IF ts[i].t = "n" THEN R(ts[i].v, i + 1, "", 0)
  ELSE IF ts[i].s = "(" THEN
       (LET e == Expr(ts, i + 1, 0) IN
        IF IsOp(ts, e.pos, ")") THEN [e EXCEPT !.pos = @ + 1] ELSE [e EXCEPT !.bad = "syntax"])
  ELSE IF ts[i].s = "-" THEN (LET x == Unary(ts, i + 1) IN R(-x.v, x.pos, x.bad, x.big))
  ELSE IF ts[i].s = "!" THEN (LET x == Unary(ts, i + 1) IN R(B(x.v = 0), x.pos, x.bad, x.big))
  ELSE IF ts[i].s = "~" THEN (LET x == Unary(ts, i + 1) IN R(-x.v - 1, x.pos, x.bad, x.big))
  ELSE R(0, i, "syntax", 0)
\* precedence climbing: extend lhs with operators of precedence >= minp
Climb(ts, lhs, minp) ==
  IF lhs.pos > Len(ts) \/ ts[lhs.pos].t # "op" \/ Prec(ts[lhs.pos].s) < minp \/ Prec(ts[lhs.pos].s) < 0 THEN lhs
  ELSE LET s == ts[lhs.pos].s IN
    IF s = "?" THEN
       (LET t == Expr(ts, lhs.pos + 1, 0)
            e == IF IsOp(ts, t.pos, ":") THEN Expr(ts, t.pos + 1, 0) ELSE R(0, t.pos, "syntax", 0)
            \* a defect (division by zero, ...) in the alternative that is not selected: C does not evaluate it; whether a
            \* compiler may still refuse it is not decided here ("undef")
            taken == IF lhs.v # 0 THEN t ELSE e
            other == IF lhs.v # 0 THEN e ELSE t
            bad == Worse(lhs.bad, Worse(taken.bad, IF other.bad = "" THEN "" ELSE "undef"))
        IN R(taken.v, e.pos, bad, Max(lhs.big, Max(t.big, e.big))))
    ELSE
       (LET rhs == Climb(ts, Unary(ts, lhs.pos + 1), Prec(s) + 1)
            a == Apply(s, lhs.v, rhs.v)
            \* && and || do not evaluate their right operand when the left one decides: a defect there is "undef"
            shortcut == (s = "&&" /\ lhs.v = 0) \/ (s = "||" /\ lhs.v # 0)
            rbad == IF shortcut /\ rhs.bad # "" THEN "undef" ELSE rhs.bad
        IN Climb(ts, R(a.v, rhs.pos, Worse(lhs.bad, Worse(rbad, a.bad)), Max(lhs.big, rhs.big)), minp))
Expr(ts, i, minp) == Climb(ts, Unary(ts, i), minp)
Eval(ts) == LET r == Expr(ts, 1, 0) IN IF r.pos # Len(ts) + 1 THEN [r EXCEPT !.bad = "syntax"] ELSE r

\* sizeof: size of the object or type in bytes (char 1, short/int 2, pointers 2, arrays: elements x element size)
SizeOfType == [char |-> 1, short |-> 2, int |-> 2]
SizeOfObject(kind, elemBytes, n) == IF kind = "scalar" THEN elemBytes ELSE IF kind = "pointer" THEN 2 ELSE n * elemBytes
N(v) == [t |-> "n", v |-> v, form |-> "dec"]
O(s) == [t |-> "op", s |-> s]
ASSUME Eval(<<N(1), O("+"), N(2), O("*"), N(3)>>).v = 7
ASSUME Eval(<<N(10), O("-"), N(4), O("-"), N(3)>>).v = 3
ASSUME Eval(<<N(1), O("=="), N(2), O("<"), N(1)>>).v = 0          \* == binds looser than <: 1 == (2 < 1)
ASSUME Eval(<<N(1), O("<<"), N(2), O("+"), N(1)>>).v = 8
ASSUME Eval(<<N(6), O("&"), N(3), O("=="), N(3)>>).v = 0           \* == binds tighter than &
ASSUME Eval(<<N(1), O("|"), N(2), O("^"), N(3), O("&"), N(5)>>).v = 3
ASSUME Eval(<<O("!"), N(1)>>).v = 0 /\ Eval(<<O("!"), N(0)>>).v = 1 /\ Eval(<<O("~"), N(0)>>).v = -1
ASSUME Eval(<<O("-"), N(7), O("/"), N(2)>>).v = -3
ASSUME Eval(<<N(0), O("?"), N(1), O(":"), N(0), O("?"), N(2), O(":"), N(3)>>).v = 3
ASSUME Eval(<<N(1), O("?"), N(0), O("?"), N(5), O(":"), N(6), O(":"), N(7)>>).v = 6
ASSUME Eval(<<N(1), O("||"), N(0), O("&&"), N(0)>>).v = 1
ASSUME Eval(<<N(5), O("/"), N(0)>>).bad = "div0"
ASSUME Eval(<<N(65536), O("<<"), N(15)>>).bad = "overflow" /\ Eval(<<N(65535), O("<<"), N(15)>>).v = 2147450880
ASSUME Eval(<<N(0), O("&&"), N(1), O("/"), N(0)>>).bad = "undef" /\ Eval(<<N(1), O("&&"), N(1), O("/"), N(0)>>).bad = "div0"
ASSUME Eval(<<N(1), O("?"), N(2), O(":"), N(1), O("/"), N(0)>>).bad = "undef"
ASSUME Eval(<<O("("), N(1), O("+"), N(2), O(")"), O("*"), N(3)>>).v = 9
ASSUME Eval(<<N(300), O("*"), N(300)>>).big = 90000
ASSUME Eval(<<N(2), O("*"), O("-"), N(3)>>).v = -6
=============================================================================
