#!/bin/sh
# development aid: every quick check with another VERIF_SEED (programs are selected differently; nothing may fire)
cd /verif
for p in C01 C02 C03 C04 C05 C06 C07 C08 C09 C10 C11 C12 C13 C14 C15 C16 C17 C18; do
  s=$(date +%s)
  VERIF_SEED=$1 python3 bin/check.py $p --tier quick > work/seed$1_$p.out 2>&1
  rc=$?
  e=$(date +%s)
  echo "seed=$1 $p rc=$rc $((e-s))s viol=$(grep -c '^VIOLATION' work/seed$1_$p.out) known=$(grep -c '^KNOWN-FINDING' work/seed$1_$p.out)" >> work/seed_sweep.log
done
