#!/usr/bin/env python3
"""Entry point of every registered check:  python3 bin/check.py <property> --tier quick|thorough
Exit 0: property held on everything explored.  Exit 1: VIOLATION lines printed.  Exit 2: tool failure."""
import argparse, json, os, sys, traceback
sys.path.insert(0, os.path.join(os.path.dirname(os.path.abspath(__file__)), "..", "lib"))
from vf import common


def registry():
    from vf import checks_refine
    r = {"C01": checks_refine.c01, "C02": checks_refine.c02}
    for mod in ("checks_asm", "checks_branch", "checks_cpp", "checks_misc", "checks_refine2"):
        try:
            m = __import__("vf." + mod, fromlist=["REGISTRY"])
            r.update(m.REGISTRY)
        except ImportError:
            pass
    return r


def main():
    ap = argparse.ArgumentParser()
    ap.add_argument("prop")
    ap.add_argument("--tier", default=os.environ.get("VERIF_TIER", "quick"), choices=["quick", "thorough"])
    ap.add_argument("--replay")
    a = ap.parse_args()
    os.chdir(common.VERIF)
    if a.replay:
        print(open(a.replay).read())
        print("# replay: compile the 'source' above with the listed options and compare with 'want'/'got'; "
              "the check re-runs it when the case is part of its corpus")
        return 0
    reg = registry()
    if a.prop not in reg:
        print("unknown property", a.prop, file=sys.stderr)
        return 2
    try:
        return reg[a.prop](a.tier)
    except common.ToolError as e:
        print("TOOL-ERROR: %s" % e, file=sys.stderr)
        return 2
    except Exception:
        traceback.print_exc()
        return 2


if __name__ == "__main__":
    sys.exit(main())
