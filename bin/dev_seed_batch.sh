#!/bin/sh
# development aid: evaluate a list of "patch prop [prop...]" lines from stdin, one at a time
cd /verif
while read patch props; do
  [ -f "$patch" ] || { echo "MISSING $patch" >> work/seed_results.log; continue; }
  echo "== $patch : $props" >> work/seed_results.log
  python3 bin/dev_seed.py $patch $props >> work/seed_results.log 2>&1
done
