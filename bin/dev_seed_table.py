#!/usr/bin/env python3
"""Development aid: print the markdown tables of DESIGN.md section 0.4 for rounds 2 and 3 from seeded/*/meta.json."""
import json, glob, os, re
V = os.path.dirname(os.path.dirname(os.path.abspath(__file__)))
FIRST = {  # what the quick checks reported when the change arrived (before the strengthening it prompted)
 "S26": "-", "S27": "C01", "S28": "-", "S29": "C01", "S30": "-", "S31": "-", "S32": "-", "S33": "C03", "S34": "C18", "S35": "-", "S36": "-", "S37": "C07", "S38": "C08", "S39": "C09",
 "S40": "C06", "S41": "C04, C03", "S42": "-", "S43": "-", "S44": "-", "S45": "C17", "S46": "-",
 "S47": "C05", "S48": "- (*)", "S49": "- (*)", "S50": "C09", "S51": "-", "S52": "C01", "S53": "-", "S54": "-", "S55": "C03", "S56": "-", "S57": "C18", "S58": "C17", "S59": "C17",
 "S60": "C13", "S61": "C13", "S62": "C10", "S63": "- (*)", "S64": "- (*)", "S65": "- (*)", "S66": "C09", "S67": "C07",
 "S68": "C12", "S69": "C12", "S70": "C04", "S71": "C04, C03", "S72": "C03", "S73": "C03", "S74": "C01", "S75": "C01, C15", "S76": "-", "S77": "C01, C15", "S78": "-", "S79": "-", "S80": "C02, C01",
 "S94": "-", "S95": "-", "S96": "-", "S97": "C01", "S98": "C01", "S99": "C12", "S100": "-", "S101": "-", "S102": "-", "S103": "C03", "S104": "-", "S105": "C04, C03", "S106": "C12", "S107": "C16",
 "S108": "-", "S109": "-", "S110": "-", "S111": "C08", "S112": "-", "S113": "-", "S114": "C10", "S115": "-", "S116": "C06", "S117": "C09",
 "S118": "-", "S119": "-", "S120": "C01", "S121": "C10", "S122": "-", "S123": "-", "S124": "C01", "S125": "C12", "S126": "C07", "S127": "C06", "S128": "C10", "S129": "C09", "S130": "C03",
 "S131": "C02, C01", "S132": "C18", "S133": "C15, C01", "S134": "C01", "S135": "C17", "S136": "C03", "S137": "-", "S138": "C17", "S139": "-", "S140": "C12", "S141": "C06", "S142": "C18", "S143": "C14",
 "S144": "C11", "S145": "-", "S146": "C11", "S147": "-", "S148": "C07", "S149": "C08", "S150": "C08", "S151": "C09",
 "S152": "C16", "S153": "-", "S154": "C16", "S155": "C13", "S156": "C12", "S157": "-", "S158": "-", "S159": "C14",
 "S160": "- (**)", "S161": "-", "S162": "-", "S163": "-", "S164": "C03", "S165": "C18", "S166": "C17", "S167": "C04",
 "S168": "C03", "S169": "C04", "S170": "C03", "S171": "C12", "S172": "C12", "S173": "C13", "S174": "C15, C01", "S175": "C01", "S176": "C17", "S177": "C14", "S178": "C18", "S179": "C18",
 "S81": "-", "S82": "-", "S83": "-", "S84": "C06", "S85": "-", "S86": "C18", "S87": "C02", "S88": "-", "S89": "C02, C01", "S90": "C18", "S91": "C18", "S92": "C17", "S93": "C01"}
for rnd in (2, 3, 4, 5, 6, 7, 8):
    print("\n| id | breaks | site | caught at first run by | caught now by |\n|---|---|---|---|---|")
    for p in sorted(glob.glob(os.path.join(V, "seeded", "S*", "meta.json")), key=lambda q: int(re.search(r"S(\d+)", q).group(1))):
        m = json.load(open(p))
        if m.get("round") != rnd:
            continue
        print("| %s | %s | %s | %s | %s |" % (m["id"], m["breaks_property"], m["site"][:110].replace("|", "/"), FIRST.get(m["id"], "?"), ", ".join(m["detected_by"]) or "-"))
print("\n| id | control (behaviour-preserving) | checks run | alarms |\n|---|---|---|---|")
for p in sorted(glob.glob(os.path.join(V, "seeded", "K*", "meta.json"))):
    m = json.load(open(p))
    print("| %s | %s | %s | %s |" % (m["id"], m["what"], ", ".join(sorted(m["checks_run"])), ", ".join(m["false_alarms"]) or "none"))
