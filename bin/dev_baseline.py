#!/usr/bin/env python3
"""Development aid (never run by a registered check): runs the refinement families exhaustively on the
current tree and writes the signatures of all failing programs to work/baseline_<pid>.json, to be
reviewed and merged into known_findings.json by hand (bin/dev_merge.py)."""
import json, os, sys
sys.path.insert(0, os.path.join(os.path.dirname(os.path.abspath(__file__)), "..", "lib"))
from vf import common, refine, vocab, render, sig, checks_refine

pid = sys.argv[1]
fams = sys.argv[2].split(",") if len(sys.argv) > 2 else checks_refine.ALL_FAMS
out = {}
for fam in fams:
    progs, total = checks_refine.sample_programs("thorough", fams=[fam], name="bl")
    cases, bodies = [], {}
    for i, p in enumerate(progs):
        fn = sorted(render.calls_in(p["body"]))
        src = vocab.source(p["body"], fn)
        cid = "%s-%05d" % (p["fam"], i)
        if pid == "C01":
            vs = [dict(name="O1", args=["-O1"], src=src), dict(name="O0", args=["-O0"], src=src)]
        else:
            vs = [dict(name="O0", args=["-O0"], src=src), dict(name="O1", args=["-O1"], src=src)]
        cases.append(dict(id=cid, fam=p["fam"], body=p["body"], fnames=fn, variants=vs, locals=p.get("locals")))
        bodies[cid] = p["body"]
        if p["fam"] == "FO":
            cases.append(dict(id=cid + "-signed", fam=p["fam"], body=p["body"], fnames=fn, locals=p.get("locals"), extra_decl=checks_refine.SIGNED_PLAIN,
                              variants=[dict(name=v["name"], args=v["args"] + ["--fsigned_char"], src=src) for v in vs]))
            bodies[cid + "-signed"] = p["body"]
    pl = refine.Pipeline("bl_" + fam, tier="thorough")
    pl.run(cases, sem=(pid == "C01"), pair=(pid != "C01"), maxin=48, timeout=7000, small_fams=checks_refine.SMALL_FAMS, defined_only=(pid != "C01"))
    bad = {}
    for m in pl.mismatches:
        bad.setdefault(m["id"], []).append(m)
    for cid, ms in bad.items():
        sg = sig.signature(bodies[cid])
        m = ms[0]
        t = pl.tcases[cid]
        inp = t["inputs"][m["k"] - 1]["inp"]
        diff = {x: [m["got"].get(x), m["want"].get(x)] for x in m["want"] if m["got"].get(x) != m["want"].get(x)}
        e = out.setdefault(sg, dict(n=0, fam=fam, example=None, vars=[]))
        e["n"] += 1
        e["vars"] = sorted(set(e["vars"]) | checks_refine.diff_vars(ms))
        if e["example"] is None:
            e["example"] = dict(src=render.stmts(bodies[cid], 0).strip(), input={k: v for k, v in inp.items() if not isinstance(v, list)}, diff=diff,
                                variant=m["v1"], fault=m["fault"], halted=m["halted"])
    print(fam, "programs", len(progs), "bad", len(bad), "crashes", len(pl.crashes), "stats", json.dumps(pl.stats), flush=True)
    json.dump(out, open(os.path.join(common.WORK, "baseline_%s_%s.json" % (pid, "_".join(fams) if len(fams) < 6 else "all")), "w"), indent=1, sort_keys=True)
