#!/bin/sh
# development aid: run every quick check in turn, print exit code and wall time
cd /verif
for p in C01 C02 C03 C04 C05 C06 C07 C08 C09 C10 C11 C12 C13 C14 C15 C16 C17 C18; do
  s=$(date +%s)
  python3 bin/check.py $p --tier ${1:-quick} > work/run_$p.out 2>&1
  rc=$?
  e=$(date +%s)
  echo "$p rc=$rc $((e-s))s viol=$(grep -c '^VIOLATION' work/run_$p.out) known=$(grep -c '^KNOWN-FINDING' work/run_$p.out)"
done
