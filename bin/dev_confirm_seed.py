#!/usr/bin/env python3
"""Development aid: confirm a seeded change in a scratch worktree of /repo (outside /repo and /verif):
the patch applies, the 166 tests still pass with it, its demonstration fails with it and passes without.
usage: dev_confirm_seed.py <dir-with-patch_N.diff/demo_N.rs> <N> ; prints a JSON line"""
import json, os, re, subprocess, sys
src, n = sys.argv[1], sys.argv[2]
WT = "/tmp/wt_confirm"
if not os.path.isdir(WT):
    subprocess.run(["git", "-C", "/repo", "worktree", "add", "-q", WT, "HEAD"], check=True)
run = lambda *a, **k: subprocess.run(*a, capture_output=True, text=True, **k)
run(["git", "checkout", "--", "."], cwd=WT)
patch = os.path.join(src, "patch_%s.diff" % n)
demo = open(os.path.join(src, "demo_%s.rs" % n)).read()
out = dict(dir=src, n=n)


def with_demo(target):
    """insert the demo before the final closing brace of the tests module of target"""
    p = os.path.join(WT, target)
    s = open(p).read()
    i = s.rstrip().rfind("}")
    open(p, "w").write(s[:i] + "\n" + demo + "\n}\n")


def tests(filter_=None):
    cmd = ["cargo", "test", "--offline", "--lib"] + ([filter_] if filter_ else [])
    r = run(cmd, cwd=WT)
    m = re.search(r"test result: (\w+)\. (\d+) passed; (\d+) failed", r.stdout)
    return (m.group(1), int(m.group(2)), int(m.group(3))) if m else ("build-error", 0, 0), r.stdout[-600:] + r.stderr[-600:]


names = re.findall(r"fn\s+(\w+)\s*\(", demo)
tname = next((x for x in names if "demo" in x), names[0])
a = run(["git", "apply", patch], cwd=WT)
out["applies"] = a.returncode == 0
(res, npass, nfail), _ = tests()
out["suite_with_patch"] = [res, npass, nfail]
target = None
for t in ("src/lib.rs", "src/cpp.rs"):
    run(["git", "checkout", "--", "."], cwd=WT)
    run(["git", "apply", patch], cwd=WT)
    with_demo(t)
    (r1, p1, f1), log = tests(tname)
    if r1 != "build-error" and p1 + f1 >= 1:
        target = t
        out["demo_with_patch"] = [r1, p1, f1]
        break
out["demo_in"] = target
if target:
    run(["git", "checkout", "--", "."], cwd=WT)
    with_demo(target)
    (r0, p0, f0), log = tests(tname)
    out["demo_without_patch"] = [r0, p0, f0]
run(["git", "checkout", "--", "."], cwd=WT)
out["confirmed"] = bool(out.get("applies") and out["suite_with_patch"] == ["ok", 166, 0] and out.get("demo_with_patch", [0, 0, 0])[2] >= 1 and out.get("demo_without_patch", ["", 0, 1])[2] == 0 and out.get("demo_without_patch", ["", 0, 1])[1] >= 1)
print(json.dumps(out), flush=True)
