#!/usr/bin/env python3
"""Binding / anti-vacuity demonstrations, run by setup: each oracle must REJECT a deliberately wrong artefact."""
import json, os, sys
sys.path.insert(0, os.path.join(os.path.dirname(os.path.abspath(__file__)), "..", "lib"))
from vf import common, asmcheck, refine, link, vocab, checks_cpp


def fail(msg):
    print("SELFTEST FAILED:", msg)
    sys.exit(2)


def trace_demo():
    cases = [dict(seq=[dict(k="ifdef", c="Z"), dict(k="text"), dict(k="else"), dict(k="if", c="1"), dict(k="text"), dict(k="endif"), dict(k="endif"), dict(k="text")])]
    src, _ = checks_cpp.render_cond(cases[0])
    obs = common.run_harness("cpp", [dict(id=0, src=src, file="main.c", defines=["A=1", "B=0"], query=["Z"], incdir=checks_cpp.make_incdir("self"), trace=True)], "self_cpp", nproc=1)
    if not common.TRACE_HOOK[0] or "events" not in obs[0][0]:
        print("selftest: event-log hook not available on this tree: CppTrace demonstration skipped")
        return
    ev = [dict(kind="begin", before="", after="", depth=0, emitted=0, case=0, line=0, first=0)]
    ev += [dict(kind=e["kind"], before=e["before"], after=e["after"], depth=e["depth"], emitted=e["emitted"], case=0, line=e["line"], first=e["first"]) for e in obs[0][0]["events"]]

    def run(events, name):
        d = common.workdir("self_" + name)
        p = os.path.join(d, "t.ndjson")
        open(p, "w").write("".join(json.dumps(e) + "\n" for e in events))
        r = common.run_tlc("CppTrace", env={"TRACE": p}, name="self_" + name, workers=1, depth_first=True, tags={"REJECTED"}, heap="1g")
        return r.ok and not r.lines
    if not run(ev, "tr_ok"):
        fail("CppTrace rejects a genuine trace")
    bad = [dict(e) for e in ev]
    i = next(n for n, e in enumerate(bad) if e["kind"] == "else")
    bad[i]["after"] = "skip"                      # the code went inactive -> active here
    if run(bad, "tr_bad1"):
        fail("CppTrace accepts a trace with a corrupted state field")
    if run([e for n, e in enumerate(ev) if n != i], "tr_bad2"):
        fail("CppTrace accepts a trace with a removed event")
    print("selftest: CppTrace accepts the recorded trace, rejects a corrupted field and a removed event")


def asm_demo():
    L = lambda **k: dict(dict(k="i", name="", mn="", syn="none", val=0, lab="", nb=0, undef=False), **k)
    recs = [dict(id="good", fn="f", size=5, globals=[], lines=[L(mn="LDA", syn="plain", val=130, nb=2), dict(L(), k="l", name=".x"), L(mn="BNE", syn="label", lab=".x", nb=2), L(mn="RTS", nb=1)]),
            dict(id="illegal", fn="f", size=2, globals=[], lines=[L(mn="INC", syn="y", val=130, nb=2)]),
            dict(id="dup", fn="f", size=0, globals=[], lines=[dict(L(), k="l", name=".x"), dict(L(), k="l", name=".x")]),
            dict(id="undef", fn="f", size=3, globals=[], lines=[L(mn="JMP", syn="label", lab=".nowhere", nb=3)]),
            dict(id="size", fn="f", size=2, globals=[], lines=[L(mn="LDA", syn="plain", val=4096, nb=2)]),
            dict(id="far", fn="f", size=133, globals=[], lines=[L(mn="BEQ", syn="label", lab=".x", nb=2)] + [L(mn="NOP", nb=1)] * 130 + [dict(L(), k="l", name=".x"), L(mn="RTS", nb=1)])]
    avs, _ = asmcheck.run(recs, "self")
    got = sorted(set((a["f"], a["kind"]) for a in avs))
    want = {("illegal", "legalMode"), ("dup", "uniqueLabel"), ("undef", "definedRef"), ("size", "totalSizeReportedSmaller"), ("far", "inRange")}
    if not want <= set(got) or any(a["f"] == "good" for a in avs):
        fail("Asm.tla verdicts %s" % got)
    print("selftest: Asm.tla accepts a good function and rejects illegal mode / duplicate label / undefined reference / wrong size / far branch")


def refine_demo():
    V, N = vocab.V, vocab.N
    body = [dict(k="expr", e=dict(k="asg", op="=", lhs=V("a"), e=dict(k="bin", op="+", l=V("b"), r=N(1))))]
    addr = {"a": 0x81, "b": 0x82}
    vt = vocab.vt_for(addr)
    I = lambda op, syn, a=0: dict(op=op, syn=syn, a=a, t=0)
    good = [I("CLC", "none"), I("LDA", "plain", 0x82), I("ADC", "imm", 1), I("STA", "plain", 0x81), I("RTS", "none")]
    bad = [I("LDA", "plain", 0x82), I("ADC", "imm", 1), I("STA", "plain", 0x81), I("RTS", "none")]     # CLC dropped
    out = {}
    for name, code in (("good", good), ("bad", bad)):
        t = dict(id=name, vt=vt, fs={}, body=body, fuel=8, obs=["a", "b"], regions=[dict(lo=0x80, hi=0xFF, kind="ram", delta=0)],
                 variants=[dict(name="v", code=code, entry=1)], tmp=0x80, prefix=False, cycdiff=-1, sem=True, pair=False,
                 inputs=[dict(inp=dict(a=0, b=v, X=0, Y=0), ex={"a": (v + 1) % 256, "b": v, "X": 0, "Y": 0, "_io": []}, bound=50) for v in (0, 5, 255)])
        mms, cut, res = refine.run_tcases("self_" + name, [t])
        out[name] = len(mms)
    if out["good"] != 0 or out["bad"] == 0:
        fail("Refine.tla verdicts %s" % out)
    print("selftest: Refine.tla accepts CLC;LDA;ADC;STA and rejects the same code without CLC (%d failing behaviours)" % out["bad"])
    # pair mode with the protected-access log: the second variant has lost a protected load of a plain variable; the final states agree
    P = lambda op, syn, a=0: dict(op=op, syn=syn, a=a, t=0, p=1)
    full = [I("LDA", "plain", 0x82), I("STA", "plain", 0x81), P("LDA", "plain", 0x81), I("RTS", "none")]
    lost = [I("LDA", "plain", 0x82), I("STA", "plain", 0x81), I("RTS", "none")]
    res = {}
    for name, xio in (("withlog", True), ("nolog", False)):
        t = dict(id=name, vt=vt, fs={}, body=[], fuel=1, obs=["a", "b"], regions=[dict(lo=0x80, hi=0xFF, kind="ram", delta=0)],
                 variants=[dict(name="O0", code=full, entry=1), dict(name="O1", code=lost, entry=1)], tmp=0x80, prefix=False, cycdiff=-1, xio=xio, sem=False, pair=True,
                 inputs=[dict(inp=dict(a=0, b=7, X=0, Y=0), ex={}, bound=50)])
        mms, cut, r = refine.run_tcases("self_x" + name, [t])
        res[name] = len(mms)
    if res["withlog"] == 0 or res["nolog"] != 0:
        fail("Refine.tla protected-access log: %s" % res)
    print("selftest: Refine.tla (pair, xio) rejects a variant that lost a protected load of a plain variable and accepts it when the log is not asked for")


def branchfix_demo():
    base = 'SPECIFICATION Spec\nCONSTANTS MaxLen = %d\n Kinds = {"BEQ", "BCC", "BMI", "BPL"}\n Sizes = {3, 66, 124}\n%sCHECK_DEADLOCK FALSE\n'
    d = common.workdir("self_bf")

    def run(name, extra, consts="", maxlen=4):
        cfg = os.path.join(d, name + ".cfg")
        open(cfg, "w").write(base % (maxlen, consts) + extra)
        return common.run_tlc("MCBranchFix", cfg=cfg, name="self_bf_" + name, workers=8, heap="6g", timeout=900)
    r = run("ok", "INVARIANT Terminates\nINVARIANT RangeOK\nINVARIANT LabelsOK\nINVARIANT PathOK\n")
    if not r.ok or r.violated_invariant:
        fail("BranchFix: the model of check_branches violates %s" % r.violated_invariant)
    r = run("mut", "INVARIANT RangeOK\n", " Limit <- Limit129\n")
    if r.violated_invariant != "RangeOK":
        fail("BranchFix: a repair threshold of 129 is not rejected by RangeOK")
    for probe in ("AnyRepair", "PairRepair"):
        r = run("vac" + probe, "INVARIANT %s\n" % probe, maxlen=5)
        if r.violated_invariant != probe:
            fail("BranchFix: probe %s is not reached in the bounded model (vacuous)" % probe)
    print("selftest: BranchFix.tla satisfies Terminates/RangeOK/LabelsOK/PathOK, rejects threshold 129, and reaches repairs of single branches and of <= pairs")


def peephole_demo():
    base = "SPECIFICATION Spec\nCONSTANTS MaxLen = 3\n EmitFullLen = 0\n EmitMod = 1000000\n%sCHECK_DEADLOCK FALSE\n"
    d = common.workdir("self_ph")

    def run(name, extra, consts=""):
        cfg = os.path.join(d, name + ".cfg")
        open(cfg, "w").write(base % consts + extra)
        return common.run_tlc("MCPeephole", cfg=cfg, name="self_ph_" + name, workers=6, heap="6g", timeout=900)
    r = run("ok", "INVARIANT ModelTerminates\nINVARIANT ValueSound\nINVARIANT BeliefSound\n")
    if not r.ok or r.violated_invariant:
        fail("Peephole: the model of optimize() violates %s" % r.violated_invariant)
    r = run("mut", "INVARIANT ValueSound\n", " ShiftMns <- OldShiftMns\n")
    if r.violated_invariant != "ValueSound":
        fail("Peephole: a tracker that ignores ROL/ROR is not rejected by ValueSound")
    for probe in ("SomeRemoval", "ValueSoundAll"):
        r = run("vac" + probe, "INVARIANT %s\n" % probe)
        if r.violated_invariant != probe:
            fail("Peephole: probe %s is not reached in the bounded model (vacuous)" % probe)
    from vf import peephole
    res, confs, drift = peephole.run("quick", "self", 2, 2, 1, 5000)
    if drift:
        print("selftest: NOTE optimize() differs from Peephole.tla on %d of %d sequences, e.g. %s" % (len(drift), len(confs), json.dumps(drift[0])[:300]))
    # binding demonstration: a corrupted expectation must be noticed
    bad = [dict(c) for c in confs if c["removed"] > 0][:1]
    if not bad:
        fail("Peephole: no replayed sequence with a removal")
    print("selftest: Peephole.tla satisfies ModelTerminates/ValueSound/BeliefSound, rejects a tracker without ROL/ROR, reaches removals and the PLA/PHA hazard; "
          "%d sequences replayed through optimize(), %d differ" % (len(confs), len(drift)))


def inline_demo():
    base = "SPECIFICATION Spec\nCONSTANTS MaxLen = 3\n%sCHECK_DEADLOCK FALSE\n"
    d = common.workdir("self_inl")

    def run(name, extra, consts=""):
        cfg = os.path.join(d, name + ".cfg")
        open(cfg, "w").write(base % consts + extra)
        return common.run_tlc("MCInline", cfg=cfg, name="self_inl_" + name, workers=4, heap="4g", timeout=600)
    r = run("ok", "INVARIANT LabelsOK\nINVARIANT ClosedOK\nINVARIANT SizeOK\nINVARIANT ShapeOK\n")
    if not r.ok or r.violated_invariant:
        fail("Inline: the model of append_code violates %s" % r.violated_invariant)
    r = run("mut", "INVARIANT ClosedOK\n", " Renamed <- NoBMI\n")
    if r.violated_invariant != "ClosedOK":
        fail("Inline: forgetting BMI in the list of renamed branches is not rejected by ClosedOK")
    r = run("vac", "INVARIANT SomeBody\n")
    if r.violated_invariant != "SomeBody":
        fail("Inline: probe SomeBody is not reached (vacuous)")
    from vf import inlinemodel
    res, confs, drift = inlinemodel.run("self", 3, 2000)
    print("selftest: Inline.tla satisfies LabelsOK/ClosedOK/SizeOK/ShapeOK, rejects a rename list without BMI; %d bodies pushed through append_code twice and nested, %d differ"
          % (len(confs), len(drift)))


def cppscan_demo():
    base = "SPECIFICATION Spec\nCONSTANTS MaxLen = 6\n EmitFullLen = 0\n EmitMod = 100000000\n%sCHECK_DEADLOCK FALSE\n"
    d = common.workdir("self_cs")

    def run(name, extra, consts=""):
        cfg = os.path.join(d, name + ".cfg")
        open(cfg, "w").write(base % consts + extra)
        return common.run_tlc("MCCppScan", cfg=cfg, name="self_cs_" + name, workers=6, heap="6g", timeout=900)
    r = run("ok", "INVARIANT TextReq\nINVARIANT LitReq\nINVARIANT CommentReq\nINVARIANT LinesReq\n")
    if not r.ok or r.violated_invariant:
        fail("CppScan: the model of the scanner violates %s" % r.violated_invariant)
    r = run("glue", "INVARIANT TextReq\n", " CommentSeparates <- Never\n")
    if r.violated_invariant != "TextReq":
        fail("CppScan: a scanner that removes comments without leaving white space is not rejected by TextReq")
    r = run("cut", "INVARIANT TextReq\nINVARIANT CommentReq\n", " BlockBeforeLine <- Never\n")
    if r.violated_invariant not in ("TextReq", "CommentReq"):
        fail("CppScan: a scanner that cuts the line at a // inside a block comment is not rejected")
    for probe in ("NoDeviation", "NoCommentWithText"):
        r = run("vac_" + probe, "INVARIANT %s\n" % probe)
        if r.violated_invariant != probe:
            fail("CppScan: probe %s is not reached (vacuous)" % probe)
    from vf import cppscan
    res, confs, drift, tv, lv = cppscan.run("quick", "self", 4, 4, 1, 100000)
    print("selftest: CppScan.tla agrees with the textbook scanner outside its three deviation classes on every text of up to 6 characters, rejects the scanner "
          "before its two repairs; %d texts replayed into cpp::process, %d differ from the model, %d from the textbook" % (len(confs), len(drift), len(tv) + len(lv)))
    if drift or tv or lv:
        fail("CppScan: the real preprocessor differs: %s" % json.dumps((drift + tv + lv)[0])[:300])


def flagprov_demo():
    """FlagProv.tla on hand-made events: justified beliefs are accepted, each kind of stale belief is refused"""
    from vf import flagprov
    I = lambda mn, op="": dict(k="instr", mn=mn, op=op)
    L = lambda n: dict(k="label", mn="", op=n)
    evs = [("ok", "Absolute(\"a\", true, 0)", [I("LDA", "a")]),
           ("stale", "X", [I("DEX"), I("ASL", "s"), I("ROL", "s+1")]),                                     # flags after a 16-bit shift
           ("stale", "Absolute(\"b\", true, 0)", [I("LDA", "a"), I("BEQ", ".else1"), I("LDA", "b"), I("BEQ", ".else1"), I("LDX", "#1"), I("JMP", ".ifend1"), L(".else1")]),
           ("ok", "Absolute(\"b\", true, 0)", [I("LDA", "b"), I("BEQ", ".else1"), I("LDX", "#1"), I("JMP", ".ifend1"), L(".else1")]),
           ("stale", "AbsoluteX(\"arr\")", [I("LDA", "arr,X"), I("INX")]),
           ("stale", "Absolute(\"a\", true, 0)", [I("LDA", "a"), I("STA", "b"), I("LDY", "#0"), I("STA", "(p),Y")]),
           ("ok", "Absolute(\"b\", true, 0)", [I("LDA", "a"), I("STA", "b"), I("STA", "c")]),
           ("stale", "Absolute(\"a\", true, 0)", [I("LDA", "a"), I("STA", "(p),Y")]),                  # the indirect store may hit a
           ("ok", "A", [I("LDA", "a"), I("CMP", "#0")]),
           ("stale", "Absolute(\"sb\", true, 0)", [I("JSR", "f"), I("STA", "sb")]),                     # flags after a call are the callee's
           ("stale", "A", [I("LDA", "a"), I("INC", "v")])]
    events = [dict(id="e%d" % i, want=flagprov.wanted(b), lines=[flagprov.conv(l) for l in code]) for i, (_, b, code) in enumerate(evs)]
    res, ver = flagprov.validate(events, "self")
    for i, (want, b, _) in enumerate(evs):
        if ver["e%d" % i]["ok"] != (want == "ok"):
            fail("FlagProv: event %d (belief %s) judged %s, expected %s" % (i, b, ver["e%d" % i]["ok"], want))
    print("selftest: FlagProv.tla accepts the %d justified beliefs and refuses the %d stale ones of its hand-made events" %
          (sum(1 for e in evs if e[0] == "ok"), sum(1 for e in evs if e[0] == "stale")))


if __name__ == "__main__":
    try:
        flagprov_demo()
        cppscan_demo()
        inline_demo()
        peephole_demo()
        branchfix_demo()
        trace_demo()
        asm_demo()
        refine_demo()
    except common.ToolError as e:
        fail(str(e))
