#!/usr/bin/env python3
"""Binding / anti-vacuity demonstrations, run by setup: each oracle must REJECT a deliberately wrong artefact."""
import json, os, sys
sys.path.insert(0, os.path.join(os.path.dirname(os.path.abspath(__file__)), "..", "lib"))
from vf import common, asmcheck, refine, link, vocab, checks_cpp


def fail(msg):
    print("SELFTEST FAILED:", msg)
    sys.exit(2)


def trace_demo():
    cases = [dict(seq=[dict(k="ifdef", c="Z"), dict(k="text"), dict(k="else"), dict(k="if", c="1"), dict(k="text"), dict(k="endif"), dict(k="endif"), dict(k="text")])]
    src, _ = checks_cpp.render_cond(cases[0])
    obs = common.run_harness("cpp", [dict(id=0, src=src, file="main.c", defines=["A=1", "B=0"], query=["Z"], incdir=checks_cpp.make_incdir("self"), trace=True)], "self_cpp", nproc=1)
    if not common.TRACE_HOOK[0] or "events" not in obs[0][0]:
        print("selftest: event-log hook not available on this tree: CppTrace demonstration skipped")
        return
    ev = [dict(kind="begin", before="", after="", depth=0, emitted=0, case=0, line=0, first=0)]
    ev += [dict(kind=e["kind"], before=e["before"], after=e["after"], depth=e["depth"], emitted=e["emitted"], case=0, line=e["line"], first=e["first"]) for e in obs[0][0]["events"]]

    def run(events, name):
        d = common.workdir("self_" + name)
        p = os.path.join(d, "t.ndjson")
        open(p, "w").write("".join(json.dumps(e) + "\n" for e in events))
        r = common.run_tlc("CppTrace", env={"TRACE": p}, name="self_" + name, workers=1, depth_first=True, tags={"REJECTED"}, heap="1g")
        return r.ok and not r.lines
    if not run(ev, "tr_ok"):
        fail("CppTrace rejects a genuine trace")
    bad = [dict(e) for e in ev]
    i = next(n for n, e in enumerate(bad) if e["kind"] == "else")
    bad[i]["after"] = "skip"                      # the code went inactive -> active here
    if run(bad, "tr_bad1"):
        fail("CppTrace accepts a trace with a corrupted state field")
    if run([e for n, e in enumerate(ev) if n != i], "tr_bad2"):
        fail("CppTrace accepts a trace with a removed event")
    print("selftest: CppTrace accepts the recorded trace, rejects a corrupted field and a removed event")


def asm_demo():
    L = lambda **k: dict(dict(k="i", name="", mn="", syn="none", val=0, lab="", nb=0, undef=False), **k)
    recs = [dict(id="good", fn="f", size=5, globals=[], lines=[L(mn="LDA", syn="plain", val=130, nb=2), dict(L(), k="l", name=".x"), L(mn="BNE", syn="label", lab=".x", nb=2), L(mn="RTS", nb=1)]),
            dict(id="illegal", fn="f", size=2, globals=[], lines=[L(mn="INC", syn="y", val=130, nb=2)]),
            dict(id="dup", fn="f", size=0, globals=[], lines=[dict(L(), k="l", name=".x"), dict(L(), k="l", name=".x")]),
            dict(id="undef", fn="f", size=3, globals=[], lines=[L(mn="JMP", syn="label", lab=".nowhere", nb=3)]),
            dict(id="size", fn="f", size=2, globals=[], lines=[L(mn="LDA", syn="plain", val=4096, nb=2)]),
            dict(id="far", fn="f", size=133, globals=[], lines=[L(mn="BEQ", syn="label", lab=".x", nb=2)] + [L(mn="NOP", nb=1)] * 130 + [dict(L(), k="l", name=".x"), L(mn="RTS", nb=1)])]
    avs, _ = asmcheck.run(recs, "self")
    got = sorted(set((a["f"], a["kind"]) for a in avs))
    want = {("illegal", "legalMode"), ("dup", "uniqueLabel"), ("undef", "definedRef"), ("size", "totalSizeReportedSmaller"), ("far", "inRange")}
    if not want <= set(got) or any(a["f"] == "good" for a in avs):
        fail("Asm.tla verdicts %s" % got)
    print("selftest: Asm.tla accepts a good function and rejects illegal mode / duplicate label / undefined reference / wrong size / far branch")


def refine_demo():
    V, N = vocab.V, vocab.N
    body = [dict(k="expr", e=dict(k="asg", op="=", lhs=V("a"), e=dict(k="bin", op="+", l=V("b"), r=N(1))))]
    addr = {"a": 0x81, "b": 0x82}
    vt = vocab.vt_for(addr)
    I = lambda op, syn, a=0: dict(op=op, syn=syn, a=a, t=0)
    good = [I("CLC", "none"), I("LDA", "plain", 0x82), I("ADC", "imm", 1), I("STA", "plain", 0x81), I("RTS", "none")]
    bad = [I("LDA", "plain", 0x82), I("ADC", "imm", 1), I("STA", "plain", 0x81), I("RTS", "none")]     # CLC dropped
    out = {}
    for name, code in (("good", good), ("bad", bad)):
        t = dict(id=name, vt=vt, fs={}, body=body, fuel=8, obs=["a", "b"], regions=[dict(lo=0x80, hi=0xFF, kind="ram", delta=0)],
                 variants=[dict(name="v", code=code, entry=1)], tmp=0x80, prefix=False, cycdiff=-1, sem=True, pair=False,
                 inputs=[dict(inp=dict(a=0, b=v, X=0, Y=0), ex={"a": (v + 1) % 256, "b": v, "X": 0, "Y": 0, "_io": []}, bound=50) for v in (0, 5, 255)])
        mms, cut, res = refine.run_tcases("self_" + name, [t])
        out[name] = len(mms)
    if out["good"] != 0 or out["bad"] == 0:
        fail("Refine.tla verdicts %s" % out)
    print("selftest: Refine.tla accepts CLC;LDA;ADC;STA and rejects the same code without CLC (%d failing behaviours)" % out["bad"])


if __name__ == "__main__":
    try:
        trace_demo()
        asm_demo()
        refine_demo()
    except common.ToolError as e:
        fail(str(e))
