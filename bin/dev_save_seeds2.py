#!/usr/bin/env python3
"""Development aid: store the confirmed seeded changes of rounds 2 and 3 (and the behaviour-preserving controls) under
/verif/seeded/<id>/ (patch.diff rebased onto /repo's HEAD, demo.rs, meta.json), and refresh the round-1 patches so that
every stored patch applies to the final tree with plain `git apply`.
usage: dev_save_seeds2.py <farm results .ndjson ...>"""
import json, os, shutil, subprocess, sys
V = os.path.dirname(os.path.dirname(os.path.abspath(__file__)))
W = os.path.join(V, "work")
WT = "/tmp/wt_rebase"
sh = lambda cmd, **k: subprocess.run(cmd, shell=True, capture_output=True, text=True, **k)
SEEDS = [
 # id, source dir, n, property, site, needs
 ("S26", "round2/A", 1, "C01", "generate_arithm.rs generate_plusplus: flags recorded as valid for the variable after a 16-bit `--` (LDA lo/BNE/DEC hi/DEC lo)", "a short decremented with -- and tested for zero at once, low byte reaching 0 with a non-zero high byte (w = 0x0201)"),
 ("S27", "round2/A", 2, "C01", "generate_assign.rs: Y = t[Y] ends in TAX instead of TAY", "destination Y and a source indexed by Y"),
 ("S28", "round2/A", 3, "C01", "generate_conditions.rs generate_switch: the loop entry pushed for a switch takes the enclosing loop's BREAK label as continue label", "loop > switch > continue, input selecting the case with the continue while iterations remain"),
 ("S29", "round2/A", 4, "C01", "generate_statements.rs generate_function_call: flags belief discarded only for functions that return a value", "v tested, then a call of a void function that changes the flags, then if (v) again"),
 ("S30", "round2/B", 1, "C02", "assemble.rs optimize: a store drops only the beliefs whose operand text equals the store's operand", "belief `t,X` with X == k, then a store to `t+k` (aliasing spellings), then a reload of `t,X`"),
 ("S31", "round2/B", 2, "C02", "assemble.rs optimize: TAY no longer overwrites the Y belief when the accumulator belief is None", "LDY v; arithmetic in A; TAY; LDY v with no store in between"),
 ("S32", "round2/B", 3, "C02", "assemble.rs optimize: JMP no longer clears the register beliefs", "JMP to the directly following label that another path reaches with different register contents (inline function with several returns; break as last statement of a loop body)"),
 ("S33", "round2/B", 4, "C03", "assemble.rs check_branches: after a repair the scan resumes at the repaired branch instead of at line 0", "an earlier forward branch of 125..127 bytes whose span contains a later branch that gets repaired (+3 bytes)"),
 ("S34", "round2/B", 5, "C18", "assemble.rs optimize: in the STA-then-LDA rule the protection test is made on the STA instead of the LDA", "a = b; load(a); at -O1: the protected LDA of the load statement is removed"),
 ("S35", "round2/C", 1, "C06", "cpp.rs #include: current_filename not restored after the nested process() returns", "an #include that has returned, then an #if/#elif whose expression the evaluator refuses"),
 ("S36", "round2/C", 2, "C06", "compile.rs compiler_error: line computed with lines().count() on the text before the position", "a code-generation error (Error::Compiler) whose token is in column 1 of its line"),
 ("S37", "round2/C", 3, "C07", "cpp.rs eval_unary: negate = true instead of negate = !negate", "a condition with an even number of ! before a term (#if !!FOO)"),
 ("S38", "round2/C", 4, "C08", "cpp.rs undefine: the RegexSet rebuilt after #undef is the last block's", "more than 100 macros, #undef of one of the first 100, then use of a macro defined after it in the same block"),
 ("S39", "round2/C", 5, "C09", "compile.rs compile_quoted_string: terminating NUL pushed only if the text does not already end with \\\\0", "a literal (or run of adjacent literals) whose last decoded character is \\\\0"),
 ("S40", "round2/C", 6, "C11", "cpp.rs splice loop: three conditional pops replaced by truncate(len - 2)", "CR-LF line ends and a backslash-newline splice"),
 ("S41", "round2/D", 1, "C04", "assemble.rs check_branches: the JMP inserted by the repair declared 2 bytes", "a function with at least one repaired long branch"),
 ("S42", "round2/D", 2, "C13", "generate_statements.rs / generate_arithm.rs: in-place 16-bit shift extended to Y-indexed elements", "sarr[Y] <<= 1 on an array of shorts (ASL sarr,Y does not exist)"),
 ("S43", "round2/D", 3, "C12", "generate_statements.rs generate_function_call: early return skips the call-tree recording", "a call of a value-returning function made while the accumulator holds a pending operand, being the only call of the callee"),
 ("S44", "round2/D", 4, "C14", "assemble.rs append_code: BMI dropped from the list of renamed branch mnemonics", "an inline function containing a BMI (signed comparison) to a local label"),
 ("S45", "round2/D", 5, "C17", "generate_asm.rs asm: 3E+ write-port offset 0x400 instead of 0x200 in the AbsoluteX branch", "3E+ scheme, on-chip RAM array written with an X index"),
 ("S46", "round2/D", 6, "C10", "compile.rs parse_sizeof: CharPtrPtr moved to the CharPtr arm", "sizeof(array of pointers) in a constant context"),
 ("S47", "round3/G", 1, "C05", "compile.rs: Variable.order from a dedicated counter that one site (string literal inside an array-of-pointers initialiser) reads without incrementing", "const char *t[] = {\"a\", \"b\", ...}: literals and array tie on order"),
 ("S48", "round3/G", 2, "C05", "generate_asm.rs compute_functions_actually_in_use: new diagnostic raised inside the loop over the functions HashMap", "at least two interrupt routines with parameters or a return value"),
 ("S49", "round3/G", 3, "C05", "cpp.rs #include: process-wide cache of included text keyed by the name as written", "two compilations in one process whose #include \"x.h\" resolves to different contents"),
 ("S50", "round3/G", 4, "C16", "cpp.rs string-literal scanner: backslash parity counted from len - 2 without a guard", "a literal where \\\\\" directly follows the opening quote or another \\\\\""),
 ("S51", "round3/G", 5, "C16", "generate_statements.rs generate_continue: walks down the loops stack past switch entries with no lower bound", "continue inside a switch that is not inside any loop"),
 ("S52", "round3/H", 1, "C15", "generate_arithm.rs generate_plusplus: flag-update lines hoisted, 16-bit --s records valid flags", "--s on a short directly followed by a zero test, low byte 0 and high byte non-zero"),
 ("S53", "round3/H", 2, "C15", "assemble.rs optimize: a store forgets a tracked register load only if the operand text is equal or the store is indexed", "-O1: c = arr[X]; arr[2] = Y; d = arr[X]; with X == 2"),
 ("S54", "round3/H", 4, "C14", "generate_statements.rs: a return in tail position of an inline function omits JMP .endof; tail position wrongly propagated into loop bodies and switch cases", "an inline function whose last statement is a loop or switch with a return ending the loop body or a case, and more work after it"),
 ("S55", "round3/H", 5, "C14", "assemble.rs check_branches rewritten as a table: a far BCC/BMI L; BEQ L pair repaired as BCS/BPL .fix; JMP L", "a <= / > guard around a body of about 126 bytes or more (e.g. an inlined body), operands equal at run time"),
 ("S56", "round3/I", 1, "C18", "assemble.rs append_code: every inlined instruction gets protected = false", "load/store/csleep inside an inline function, a removable pattern in the caller, -O1"),
 ("S57", "round3/I", 2, "C18", "generate_statements.rs csleep table: csleep(6) = PHA; PLA (7 cycles)", "csleep(6)"),
 ("S58", "round3/I", 3, "C17", "generate_asm.rs port_offset() helper matches the scheme as \"3E+\" where the driver passes \"3EP\"", "3E+ cartridge and any store to on-chip RAM"),
 ("S59", "round3/I", 4, "C17", "generate_arithm.rs generate_plusplus X-indexed arm: the 16-bit branch loses its !superchip guard", "feature atari2600, an array of shorts in split-port RAM, arr[X]++"),
 ("S60", "round3/I", 5, "C13", "generate_statements.rs shift-assign / generate_shift_16bits: in-place 16-bit shift extended to Y-indexed left values", "sarr[Y] <<= 1 on an array of shorts"),
 ("S61", "round3/I", 6, "C13", "assemble.rs append_code: an existing inlineK suffix is replaced instead of stacked", "nested inlining: an inline function calling an inline function, inlined more than once"),
 ("S62", "round3/J", 1, "C10", "compile.rs calculator Pratt table: == != merged into the level of < <= > >=", "equality followed by a relational operator without parentheses in an initialiser or array size"),
 ("S63", "round3/J", 2, "C10", "generate_arithm.rs generate_bnot: the integer-literal fast path removed (everything through ^ 0xff)", "~literal in a statement used wider than 8 bits (short s = ~5)"),
 ("S64", "round3/J", 3, "C08", "compile.rs compile(): -D split with split('=') instead of splitn(2, '=')", "a -D value that itself contains ="),
 ("S65", "round3/J", 4, "C08", "cpp.rs define_regex: \\\\s* allowed between the macro name and the parameter list", "an object-like macro whose body starts with a parenthesised identifier list: #define VAL (X)"),
 ("S66", "round3/J", 5, "C09", "compile.rs compile_quoted_string: terminator skipped when the string already ends with NUL", "a literal whose last decoded character is \\\\0"),
 ("S67", "round3/J", 6, "C07", "cpp.rs #ifdef/#ifndef: state = if selected {Active} else {Inactive}, losing Skip", "an #ifdef group with #else nested inside an unselected region"),
 ("S68", "round4/L", 1, "C12", "generate_statements.rs generate_function_call: return-value clean-up returns early before the call-tree note", "a non-void callee called while A already holds the left operand: r = (a + b) + f();"),
 ("S69", "round4/L", 2, "C12", "generate_asm.rs compute_functions_actually_in_use: the loop over interrupt handlers becomes sorted_functions().find(..interrupt)", "two or more interrupt functions: the later one and what only it reaches drop out of the in-use set"),
 ("S70", "round4/L", 3, "C04", "generate_asm.rs asm() AbsoluteY 16-bit-table block: zero page gives 2 bytes for every mnemonic", "a zero-page short or pointer array indexed by Y with LDA/STA/ADC"),
 ("S71", "round4/L", 4, "C04", "assemble.rs check_branches repair emission refactored into a closure: the JMP keeps nb_bytes 2", "a function with at least one repaired long branch"),
 ("S72", "round4/L", 5, "C03", "assemble.rs check_branches restart loop: the scan resumes at the repaired branch instead of line 0", "an outer forward branch at 125..127 with, inside its span, a branch that gets repaired"),
 ("S73", "round4/L", 6, "C03", "assemble.rs check_branches <=-pair detection: BMI and BCC arms merged, the operand-equality test lost", "a far BMI/BCC directly followed by a BEQ to another label"),
 ("S74", "round4/K", 1, "C01", "generate_assign.rs store to an Absolute destination: flags recorded as describing the variable after the high-byte store too", "s = t; if (s) ... with values 1..255 (only the high byte is tested)"),
 ("S75", "round4/K", 2, "C01", "generate_condition_ex: operator tables moved into negated()/swapped(); swapped(Lte) returns Gt", "operands exchanged (constant on the left, or right operand in X/Y/A): <= in loop-back tests, > in if/while, operands equal"),
 ("S76", "round4/K", 3, "C01", "generate_ternary: ?: with alternatives of mixed signedness accepted and typed signed (was refused)", "(c ? uc : sc) >> 1 or < 5 with the unsigned alternative selected and >= 128"),
 ("S77", "round4/K", 4, "C01", "compound-assignment arm of generate_expr: high-byte pass skipped for an unsigned 8-bit operand unless += / -=", "16-bit destination &= unsigned char variable or X/Y keeps its high byte"),
 ("S78", "round4/K", 5, "C01", "generate_expr Identifier subscript: X and Y arms merged, the sign extension always uses AbsoluteX", "short = sca[Y] for a signed char array, sca[X] and sca[Y] of different signs"),
 ("S79", "round4/K", 6, "C01", "purge_deferred_plusplus_and_savey: Y restored before the postponed ++ / -- are emitted", "(*p)++, p[3]++, p[i]-- with Y different from the index"),
 ("S80", "round4/K", 8, "C02", "generate_branch_instruction Gt: the BEQ .ifhere before BCS/BPL no longer protected", "-O1: a > K as a value or || operand with A holding a known constant: CMP/BEQ folded, BCS uses a stale carry"),
 ("S81", "round4/M", 1, "C11", "cpp.rs process(): scanning resumes one character too early after a comment opener", "a block comment that begins /*/ : the opener is read as the closer"),
 ("S82", "round4/M", 2, "C11", "cpp.rs splice loop: backslash-newline becomes a blank instead of vanishing", "a splice between a function-like macro's name and its ( in the #define"),
 ("S83", "round4/M", 3, "C06", "cpp.rs: last_line_unterminated replaced by a per-physical-line flag checked at the end of process()", "an included file whose unterminated last line emits nothing (guard #endif, comment), then any error after the #include"),
 ("S84", "round4/M", 4, "C06", "compile.rs syntax_error/compiler_error/warning: helper using [..loc].lines().count() - 1", "an error offset at column 0 of a line other than the first"),
 ("S85", "round4/M", 5, "C16", "generate_switch: 'is last case' test hoisted to &cases[cases.len() - 1]", "an empty switch body (all cases removed by #ifdef)"),
 ("S86", "round4/M", 6, "C16", "generate_csleep_statement: default arm composes any cycle count in a while remaining != 0 loop", "csleep(1) or csleep(-n): compile() spins forever"),
 ("S87", "round4/N", 1, "C02", "assemble.rs optimize STA/STX/STY arm: a store forgets a belief only if the operand text is equal or the store is indexed", "i = buf[X]; buf[2] = Y; j = buf[X]; with X == 2"),
 ("S88", "round4/N", 2, "C02", "assemble.rs optimize new rule: CLC/SEC removed when the carry is known from a not-taken BCS/BCC; knowledge kept across JSR", "if (i < 10) { f(); k = i + 1; } where f returns with C = 1"),
 ("S89", "round4/N", 3, "C02", "assemble.rs optimize remove_both epilogue: register reset after a folded compare dropped", "a CPX #k / BNE folded inside a loop, beliefs cross the label that follows"),
 ("S90", "round4/N", 4, "C18", "generate_csleep_statement: csleep 11..30 added; the greedy remainder fill loses one cycle", "n = 11, 13, 18, 20, 25, 27 burn n-1 cycles"),
 ("S91", "round4/N", 5, "C18", "assemble.rs append_code: every inlined instruction gets protected = false", "csleep(7); csleep(7); or two loads in an inline function at -O1"),
 ("S92", "round4/N", 6, "C17", "generate_asm.rs new port_offset(): reading mnemonics listed explicitly, CPX/CPY forgotten", "if (X == s) on a superchip / 3E / 3E+ variable reads the write port"),
 ("S93", "round4/N", 7, "C15", "Variable::is_16bits unifies three 16-bit tests and drops ShortPtr from the compound-assignment one", "a[1] += k on a short array updates only the low byte when it carries"),
 ("S94", "round5/P", 1, "C01", "generate_assign: three store arms merged; the !high_byte guard survives only on the Absolute pattern", "short arr[n]; arr[X] = s; if (arr[X] != 0) with s in 1..255: only the high byte is tested"),
 ("S95", "round5/P", 2, "C01", "generate_arithm: the per-arm 'if acc_in_use { PHA }' hoisted above the match", "(a + b) + (s & 0xff): PHA without PLA, the RTS pops garbage"),
 ("S96", "round5/P", 3, "C01", "generate_shift: offset + v.size becomes offset + 1 for >> 8", "short arr[4]; c = arr[2] >> 8 reads arr+3 instead of arr+6"),
 ("S97", "round5/P", 4, "C01", "generate_plusplus: after the 16-bit decrement flags are set to the variable instead of Unknown", "do { ... } while (--s) with s = 0x0105 stops at 0x0100"),
 ("S98", "round5/P", 5, "C01", "purge_deferred_plusplus_and_savey: Y restored before the deferred ++ / -- run", "buf[i]-- or p[3]++ with Y different from the index"),
 ("S99", "round5/P", 6, "C12", "generate_function_call: inline calls are no longer noted in the call tree", "an inline function that calls another function (or has parameters / locals)"),
 ("S100", "round5/P", 7, "C01", "generate_for_loop: the purge after the init expression dropped", "for (i = j--; i < 10; i++): DEC j runs inside the loop"),
 ("S101", "round5/P", 8, "C01", "generate_csleep_statement: flags reset only for 5, 9 and 10 cycles", "Y = 0; csleep(7); if (Y): PLA sets Z from A"),
 ("S102", "round5/Q", 1, "C17", "assemble.rs optimize STA/STX/STY: a store only invalidates register knowledge whose operand string matches", "a split-port variable written as sv and read as sv+128: a = sv; sv = X; b = sv; at -O1"),
 ("S103", "round5/Q", 2, "C03", "assemble.rs check_branches outer loop: the scan resumes at the repaired branch", "an earlier forward branch spanning 126 bytes containing a repaired branch grows to 129"),
 ("S104", "round5/Q", 3, "C14", "assemble.rs append_code via a new AsmInstruction::jump() helper: inlined branches lose protected", "inline f() { if (X <= 3) ... } called after X = 5 at -O1: CPX #3 / BEQ removed, BCS tests a stale carry"),
 ("S105", "round5/Q", 4, "C04", "generate_asm.rs asm() AbsoluteY sizes via indexed_operand_size(): LDA/STA arr,Y on a zero-page array sized 2", "a[Y] = b[Y]; reports 4 bytes instead of 6"),
 ("S106", "round5/Q", 5, "C12", "generate_asm.rs function_is_actually_in_use(): inline functions skipped", "a function called only from an inline body is not emitted"),
 ("S107", "round5/Q", 6, "C16", "generate_conditions.rs generate_if: Break/Continue arms merged, the 'continue label used' flag dropped", "an unbraced if (c) continue; in a do-while: branch to an unemitted label, check_branches panics"),
 ("S108", "round5/Q", 7, "C11", "assemble.rs AsmLine::write: {:19} became {:19.19}", "--insert-code and an operand longer than 19 characters (.switchnextstatement2): truncated in the written text"),
 ("S109", "round5/Q", 8, "C01", "generate_asm.rs label(): carry_flag_ok = false removed", "if (i == 0) x = a - b; else if (i > 1) r = 1;: the else test uses a stale carry"),
 ("S110", "round5/R", 1, "C08", "cpp.rs Context::undefine: chunk/slot search replaced by flatten().position() then /100, %100", "100 or more macros, an earlier #undef in chunk 0, then an #undef of a macro in a later chunk"),
 ("S111", "round5/R", 2, "C05", "cpp.rs Context::define_ex plus a thread_local cache of compiled macro regexes keyed by macro name", "the same function-like macro name defined again with other parameter names in a later compilation of the same process (or after #undef)"),
 ("S112", "round5/R", 3, "C07", "cpp.rs process: non-# lines of an inactive region skip the comment/literal scan", "a /* opened inside a skipped region that spans a directive-looking line"),
 ("S113", "round5/R", 4, "C01", "cc6502.pest infix_ex: alternatives relisted tightest to loosest, so & is tried before &&", "&& or || in the initialiser of a local variable"),
 ("S114", "round5/R", 5, "C10", "compile.rs calculator Pratt table: eq|neq merged with the relational operators", "== or != followed by an unparenthesised relational operator in a constant expression"),
 ("S115", "round5/R", 6, "C01", "compile.rs compile_func_decl: per-parameter locals (signed, signedness_specified) hoisted out of the loop", "a plain char parameter after a signed parameter, used where signedness matters"),
 ("S116", "round5/R", 7, "C06", "compile.rs syntax_error/compiler_error/warning: char scans replaced by lines().count() - 1", "a semantic error whose token is in column 0 of a line other than the first"),
 ("S117", "round5/R", 8, "C09", "compile.rs compile_quoted_string_ex: escapes applied by successive replace()", "an escaped backslash directly followed by one of 0 n r a b t f v (\"C:\\\\new\")"),
 ("S118", "round6/T", 1, "C01", "generate_switch: flags_from_selector = false hoisted out of the per-value loop", "selector in A, first group case 1: case 0:, selector value 0: CMP #0 lost"),
 ("S119", "round6/T", 2, "C01", "new helper restore_saved_y(): flags = Y lost at the assignment call site", "v = p[2]; if (v) branches on the restored Y"),
 ("S120", "round6/T", 3, "C01", "generate_expr: sign_extended factored out, the element offset dropped", "s = t[1] with a table of signed chars: 0x00fe instead of 0xfffe"),
 ("S121", "round6/T", 4, "C10", "generate_sizeof: ShortPtr moved into the CharPtr arm", "short t[5]; X = sizeof(t) gives 5 in a statement (10 when folded in a constant context)"),
 ("S122", "round6/T", 5, "C01", "compile(): signed_chars && !unsigned_chars (unsigned_chars is always true)", "--fsigned_char becomes a no-op"),
 ("S123", "round6/T", 6, "C01", "comma operator: the purge of deferred ++ / -- between the two operands removed", "i++, j = i gives j = old i"),
 ("S124", "round6/T", 7, "C01", "generate_plusplus AbsoluteX decrement: DEC lo / BNE / DEC hi", "t[X]-- on a short array with low byte 0 or 1"),
 ("S125", "round6/T", 8, "C12", "compute_functions_actually_in_use rewritten as a work list; handlers inserted, their callees never visited", "a function called only from an interrupt handler is dropped"),
 ("S126", "round6/U", 1, "C07", "cpp.rs: nested #ifndef in a non-active region: State::Skip -> State::Inactive", "the #else of an #ifndef nested in an unselected #if becomes active"),
 ("S127", "round6/U", 2, "C06", "cpp.rs splice loop: line += 1 dropped", "every line after a backslash-newline splice is numbered one too low"),
 ("S128", "round6/U", 3, "C10", "compile.rs parse_calc gte: >= -> >", "constant a >= b with equal operands"),
 ("S129", "round6/U", 4, "C09", "compile.rs: \\v code 11 -> 12", "a literal containing \\v"),
 ("S130", "round6/U", 5, "C03", "assemble.rs check_branches: distance > 127 -> > 128", "a forward branch over exactly 128 bytes"),
 ("S131", "round6/U", 6, "C02", "assemble.rs optimize: arm JSR | JMP -> JMP", "-O1: i = 1; f(); i = 1; the reload after the call is removed"),
 ("S132", "round6/U", 7, "C18", "generate_statements.rs: one NOP dropped in csleep(8)", "csleep(8) takes 6 cycles"),
 ("S133", "round6/U", 8, "C15", "generate_conditions.rs swapped-operand table: Gte => Lte -> Gte => Lt", "if (5 < X) differs from if (X > 5) when X is 5"),
 ("S134", "round6/U", 9, "C01", "generate_arithm.rs: BNE -> BEQ in the 16-bit decrement of arr[X]", "short arr[4]; arr[X]--"),
 ("S135", "round6/U", 10, "C17", "generate_asm.rs superchip write-port arm: STA|STX|STY -> STA|STX", "superchip char v; v = Y; emits STY v+128"),
 ("S136", "round6/V", 1, "C03", "check_branches resumes at the repaired branch (long loop back edge x if (c) break; shortcut)", "BNE .dowhileend1 left at +130 bytes"),
 ("S137", "round6/V", 2, "C01", "postfix ++ / --: !second_time replaced by !high_byte (two-pass 16-bit generation x postponed ++ in a shift operand)", "ptr = Y | (X++ << 8) emits INX twice"),
 ("S138", "round6/V", 3, "C17", "compound-assign fast path x += 1 / x -= 1 as INC / DEC (split-port RAM x compound assignment)", "superchip char v; v += 1 gives INC v+128"),
 ("S139", "round6/V", 4, "C13", "generate_continue / generate_switch: refactor of the 'label used' marking, the if-continue path forgotten (switch x if (c) continue; x do-while)", ".dowhilecondition1 never defined; check_branches panics"),
 ("S140", "round6/V", 5, "C12", "compute_functions_actually_in_use: handlers inserted, not traversed (interrupts x in-use x inline)", "JSR beep emitted in irq, beep dropped"),
 ("S141", "round6/V", 6, "C06", "cpp.rs: last_line_unterminated set for every line (#include x header ending in #endif without newline)", "error reported on line 5 instead of 4"),
 ("S142", "round6/V", 7, "C18", "assemble.rs optimize: new PHA-then-PLA peephole without the protected check (optimisation level x csleep(7))", "-O1: csleep(7) disappears"),
 ("S143", "round6/V", 8, "C14", "generate_function_call: flags reset only after real JSR calls (inline expansion x flags belief)", "X = 3; f(); if (X) tested without CPX #0 after the inlined LDY #7"),
 ("S144", "round7/W", 1, "C11", "cpp.rs scanner: insert_it test on s2.is_empty() instead of uncommented_buf.is_empty()", "a comment glued after a string literal or after another comment's */ and running to the end of the line drops the whole line"),
 ("S145", "round7/W", 2, "C09", "cpp.rs string-end search: 'fix' for three backslashes (ends_with two && !ends_with three)", "a literal ending in two escaped backslashes is not closed at its quote"),
 ("S146", "round7/W", 3, "C11", "cpp.rs splice loop: no splice when the line contains //", "a backslash-newline after a line whose string literal contains // is kept"),
 ("S147", "round7/W", 4, "C06", "cpp.rs #include: last_line_unterminated reset moved before the recursive call", "a header whose last line includes a file without final newline: later lines numbered one too high"),
 ("S148", "round7/W", 5, "C07", "cpp.rs #ifndef: state logic merged (state != Active || defined => Inactive)", "the #else of an #ifndef nested in an unselected region is kept"),
 ("S149", "round7/W", 6, "C08", "cpp.rs Context::undefine: rebuilds the LAST chunk's RegexSet instead of chunk k", "100+ macros, #undef in a full chunk: a later macro of that chunk no longer expands"),
 ("S150", "round7/W", 7, "C08", "compile.rs -D handling: splitn(2, '=') became split('=')", "-DINIT=i=7 is cut at the second ="),
 ("S151", "round7/W", 8, "C09", "compile.rs compile_quoted_string_ex: escape table reordered, \\f and \\v swapped", "literals and character constants with \\f or \\v"),
 ("S152", "round7/X", 1, "C16", "compile.rs compile_quoted_string: bounds guard off by one (j <= len)", "@n@ with n equal to the number of string literals panics"),
 ("S153", "round7/X", 2, "C16", "cpp.rs #define: the repeated-parameter check compares untrimmed text", "#define F(a, a) panics (duplicate capture group), F(a,a) still refused"),
 ("S154", "round7/X", 3, "C16", "generate_assign: void check moved into the match arms, the Y arm keeps unreachable!()", "Y = f(); with a void f panics"),
 ("S155", "round7/X", 4, "C13", "generate_condition (negated ||): .ifstart counter bumped after the left operand", "if ((a && b) || c) emits .ifstart1 twice"),
 ("S156", "round7/X", 5, "C12", "generate_function_call: inline expansions not recorded in the call tree", "inline w() calls helper(): JSR helper in main, helper not in use, not emitted"),
 ("S157", "round7/X", 6, "C05", "compile.rs parse_expr_init_value: sort of collected literals dropped", "a local initialiser with two or more string literals gets a hash-order layout"),
 ("S158", "round7/X", 7, "C10", "compile.rs parse_calc <<: overflow check dropped", "(0x40000000 << 2) + 3 accepted as 3"),
 ("S159", "round7/X", 8, "C13", "assemble.rs append_code: BMI and BPL missing from the renamed branches", "a signed comparison in an inline function keeps BPL .ifend1 aimed at the caller's label"),
 ("S160", "round7/Y", 1, "C14", "generate_return: postponed operations purged on the RTS path only", "inline char h() { if (w) return t[X++]; .. }: the INX lands after JMP .endof"),
 ("S161", "round7/Y", 2, "C01", "has_shortcut looks at the top operator only", "if (!(a || b)) .. else if (b): bare BEQ on stale flags"),
 ("S162", "round7/Y", 3, "C01", "flags reset after a 16-bit shift moved to the call sites, the X-indexed short-array site forgotten", "X = v; t[X] <<= 1; if (X) branches on the ROL flags"),
 ("S163", "round7/Y", 4, "C02", "optimize: INC/DEC of a plain operand only invalidates identically spelled beliefs", "A = buf,X; INC buf+2 with X == 2: the reload of buf,X is lost"),
 ("S164", "round7/Y", 5, "C03", "check_branches: > 127 became > 128", "a forward branch over exactly 128 bytes"),
 ("S165", "round7/Y", 6, "C18", "optimize: merged overwritten-load rule tests !i2.protected instead of !i1.protected", "load(*P); v = 1; loses the hardware read at -O1"),
 ("S166", "round7/Y", 7, "C17", "asm(): superchip read port chosen by a positive list that forgets CPX/CPY", "if (X < s) with a superchip s reads the write port"),
 ("S167", "round7/Y", 8, "C03", "append_code: inlined branches and JMPs rebuilt with nb_bytes 2", "each inlined JMP measured one byte short: a 129-byte backward branch left unrepaired"),
 ("S168", "round8/P", 1, "C03", "check_branches, repair of a <= pair: the .fixupN label emitted after the JMP instead of before it", "if (X > 5) { more than 127 bytes }: the equal case falls through into the body"),
 ("S169", "round8/P", 2, "C04", "asm() AbsoluteY arm for ordinary arrays: zero-page arr,Y sized like the X-indexed arm (2 bytes)", "LDA/STA/ADC/CMP on a zero-page array through Y reported one byte short"),
 ("S170", "round8/P", 3, "C03", "check_branches upward distance scan: the branch's own 2 bytes no longer counted", "a backward branch at exactly -129 is left unrepaired"),
 ("S171", "round8/P", 4, "C12", "generate_function_call: inline expansions not recorded in the caller's call-tree entry", "a function called only from inside an inline function is dropped, its JSR stays"),
 ("S172", "round8/P", 5, "C12", "compute_functions_actually_in_use: interrupt handlers inserted directly instead of traversed as roots", "functions reachable only from an interrupt handler are dropped"),
 ("S173", "round8/P", 6, "C13", "append_code: labels and operands that already contain an inline suffix copied without the new one", "a nested inline function expanded twice in one function: duplicate labels"),
 ("S174", "round8/Q", 1, "C15", "generate_condition_ex operand-swap table: Gte => Lt instead of Lte", "if (5 < x), while (5 >= x): wrong when both operands are equal"),
 ("S175", "round8/Q", 2, "C15", "generate_plusplus 16-bit decrement leaves the belief 'flags of the whole variable'", "i--; if (i) tests the low byte only (wrong for 0x0101); i -= 1 is fine"),
 ("S176", "round8/Q", 3, "C17", "asm(): port selection folded into a helper that takes only STA as a write", "v = X; v = Y; on superchip / 3E variables: STX/STY at the read port"),
 ("S177", "round8/Q", 4, "C14", "append_code rebuilds renamed branches with protected: false", "-O1: an inline function with if (p <= 3) called with a constant loses CMP #3 / BEQ"),
 ("S178", "round8/Q", 5, "C18", "optimize: store/load pair rules merged, the STA/LDA arm drops the !i2.protected guard", "*REG = j; load(*REG); or i = j; load(i); loses the protected LDA at -O1"),
 ("S179", "round8/Q", 6, "C18", "generate_csleep_sequence: csleep(8) emitted as PHA/PLA/NOP", "csleep(8) takes 9 cycles"),
]
CONTROLS = [("K01", "round2/E", 1, "cpp.rs: three-valued State enum replaced by two booleans"), ("K02", "round2/E", 2, "renamed generated local labels"),
            ("K03", "round2/E", 3, "new peephole rule: unreachable instruction after RTS/RTI removed"), ("K04", "round2/E", 4, "different instruction selection for X = Y / Y = X while the accumulator is in use"),
            ("K05", "round2/E", 5, "message rewording and listing-comment format"), ("K06", "round2/E", 6, "internal data structures"),
            ("K07", "round3/G", 6, "compile.rs: location() and create_literal_variables() helpers (pure deduplication)"), ("K08", "round3/H", 6, "generate_branch_instruction Gt: BCC/BMI .ifhere; BNE L instead of BEQ .ifhere; BCS/BPL L"),
            ("K11", "round4/L", 7, "check_branches: reach = 128 for backward branches (a backward branch at exactly 128 is no longer rewritten)"), ("K12", "round4/K", 7, "v += 1 / v -= 1 on an 8-bit memory destination become INC / DEC"),
            ("K13", "round4/M", 7, "find() instead of splitn(), line scan extracted into a helper, i + 1 == len"), ("K14", "round4/N", 8, "new sound peephole rule: CLC/SEC removed when the carry is known, knowledge dropped at JSR/JMP/RTS/labels"),
            ("K15", "round5/P", 9, "arr[Y] = X uses STX arr,Y for a real zero-page char array"), ("K16", "round5/P", 10, "csleep(9) is PHA/PLA/NOP, all protected"),
            ("K17", "round5/Q", 9, "check_branches: backward branches may reach 128 bytes"), ("K18", "round5/Q", 10, "generate_switch: the dead fall-through JMP after a case ending with break is omitted"),
            ("K19", "round5/R", 9, "one helper builds both Pratt tables"), ("K20", "round5/R", 10, "#ifdef / #ifndef branches merged (is_some() != wanted)"),
            ("K21", "round6/T", 9, "short / pointer - 0xNN00: SBC #0 on the low byte skipped"), ("K22", "round6/T", 10, "signed char >> 7 as CMP #128 / LDA #0 / ADC #255 / EOR #255"),
            ("K23", "round6/V", 9, "check_branches: backward reach 128, forward 127"), ("K24", "round6/V", 10, "the 'continue label used' marking refactored completely, with a shared helper"),
            ("K25", "round7/W", 9, "cpp.rs splice loop rewritten as while with rfind/truncate, read_line appending directly"), ("K26", "round7/W", 10, "scanner: split_once for the comment end, the // vs /* decision restated, the two string-end branches merged"),
            ("K27", "round7/X", 9, "parse_int: the three radix arms merged into one from_str_radix call"), ("K28", "round7/X", 10, "call tree via entry().or_default().push(), visited test via set.insert()"),
            ("K29", "round7/Y", 9, "asm() AbsoluteY arm: port-offset selection rewritten with write = (mnemonic == STA)"), ("K30", "round7/Y", 10, "four pure rewrites in optimize, check_branches (>= 128), the deferred purge (mem::take) and generate_if"),
            ("K31", "round8/P", 7, "size_bytes as an iterator sum; duplicate arms of check_branches merged, the inverted-branch construction in one closure"), ("K32", "round8/P", 8, "function_is_actually_in_use as a work list; call-tree insertion through entry().or_default().push()"),
            ("K33", "round8/Q", 7, "asm(): port selection folded into a port_offset helper (STA | STX | STY are writes)"), ("K34", "round8/Q", 8, "optimize: the four store/load pair rules merged into one match, every !i2.protected guard kept"),
            ("K09", "round3/I", 7, "csleep(9): NOP; NOP; DEC DUMMY instead of DEC DUMMY; NOP; NOP"), ("K10", "round3/J", 7, "several small refactors of -D parsing, undefine, #ifdef state match, folding")]
REBASED = {("round7/Y", 1): "round7/Y_rebased/patch_1.diff", ("round2/C", 2): "rebased/C_patch_2.diff", ("round3/G", 6): "rebased/G_patch_6.diff", ("round3/J", 7): "rebased/J_patch_7.diff"}

BY_ID = {sid: (d, n) for (sid, d, n, *_rest) in SEEDS}
BY_ID.update({sid: (d, n) for (sid, d, n, _w) in CONTROLS})
conf = {}
for fn in ("seed_confirm2.log", "seed_confirm3.log", "seed_confirm4.log", "seed_confirm5.log", "seed_confirm6.log", "seed_confirm7.log", "seed_confirm8.log"):
    for l in open(os.path.join(W, fn)):
        try:
            o = json.loads(l)
        except ValueError:
            continue
        d = o["dir"].rstrip("/")
        key = {"/tmp/c2r": "round2/C"}.get(d, ("round2/" if "wt2_" in d else "round3/" if "wt3_" in d else "round4/" if "wt4_" in d else "round5/" if "wt5_" in d else "round6/" if "wt6_" in d else "round7/" if "wt7_" in d else "round8/") + d[-1])
        conf[(key, int(o["n"]))] = o
farm = {}
for fn in sys.argv[1:]:
    for l in open(fn):
        o = json.loads(l)
        rel = os.path.relpath(o["patch"], W)
        key = None
        for k, v in REBASED.items():
            if v == rel:
                key = k
        if key is None and rel.startswith("../seeded/"):
            sid = rel.split("/")[2]
            key = BY_ID.get(sid, ("round1", int(sid[1:])) if sid[0] == "S" else None)
        if key is None and rel.startswith("rebased2/"):
            sid = os.path.basename(rel)[:-5]
            key = BY_ID.get(sid, ("round1", int(sid[1:])) if sid[0] == "S" else None)
        if key is None:
            parts = rel.split("/")
            key = ("/".join(parts[:2]), int(parts[2].split("_")[1].split(".")[0]))
        farm.setdefault(key, {}).update(o.get("results", {}))

sh("git -C /repo worktree remove --force %s" % WT)
r = sh("git -C /repo worktree add --detach %s HEAD" % WT)
assert r.returncode == 0, r.stderr
head = sh("git -C /repo rev-parse --short HEAD").stdout.strip()


def rebased_patch(src):
    """the patch as a plain diff against /repo's HEAD; None if it no longer applies"""
    sh("git -C %s checkout -q -- ." % WT)
    r = sh("git -C %s apply %s" % (WT, src))
    how = "as written"
    if r.returncode != 0:
        r = sh("git -C %s apply -3 %s" % (WT, src))
        sh("git -C %s reset -q" % WT)
        how = "re-based by 3-way merge"
        if r.returncode != 0 or "with conflicts" in r.stderr:
            sh("git -C %s checkout -q -- ." % WT)
            return None, "does not apply"
    d = sh("git -C %s diff" % WT).stdout
    sh("git -C %s checkout -q -- ." % WT)
    return d, how


def save(sid, srcdir, n, meta, demo=True):
    out = os.path.join(V, "seeded", sid)
    os.makedirs(out, exist_ok=True)
    src = os.path.join(W, REBASED.get((srcdir, n), "%s/patch_%d.diff" % (srcdir, n)))
    d, how = rebased_patch(src)
    if d is None:
        # the agent's patch no longer applies: a version re-written by hand on the final tree may be stored already
        stored = os.path.join(out, "patch.diff")
        d2, _ = rebased_patch(stored) if os.path.exists(stored) else (None, None)
        if d2 is None:
            print("!!", sid, "does not apply to HEAD")
            return
        how = "re-written by hand on the final tree: fix: commits had changed the same lines"
    else:
        open(os.path.join(out, "patch.diff"), "w").write(d)
    rdemo = os.path.join(os.path.dirname(src), "demo_%d.rs" % n)          # a demonstration adapted together with a hand-rebased patch
    if demo and os.path.exists(rdemo):
        shutil.copy(rdemo, os.path.join(out, "demo.rs"))
    elif demo and os.path.exists(os.path.join(W, srcdir, "demo_%d.rs" % n)):
        shutil.copy(os.path.join(W, srcdir, "demo_%d.rs" % n), os.path.join(out, "demo.rs"))
    meta["patch_applies_to"] = "%s (%s%s)" % (head, how, "; hand-merged after a fix: commit touched the same lines" if (srcdir, n) in REBASED else "")
    json.dump(meta, open(os.path.join(out, "meta.json"), "w"), indent=1)


for sid, srcdir, n, prop, site, needs in SEEDS:
    c = conf.get((srcdir, n), {})
    res = farm.get((srcdir, n), {})
    save(sid, srcdir, n, dict(id=sid, round=int(srcdir[5]), breaks_property=prop, site=site, needs_to_manifest=needs,
         confirmed_in_scratch_worktree=dict(applies=c.get("applies"), suite_with_patch=c.get("suite_with_patch"), demo_with_patch=c.get("demo_with_patch"),
                                            demo_without_patch=c.get("demo_without_patch"), demo_pasted_into=c.get("demo_in"), note=c.get("note"),
                                            commands=["git apply patch.diff", "cargo test --offline --lib (166 passed)", "paste demo.rs into the tests module; cargo test --offline --lib <demo name> (fails)",
                                                      "git checkout -- .; same demo (passes)"]),
         checks_run={p: dict(rc=v["rc"], violations=v["violations"], first=v["first"][:200]) for p, v in res.items()},
         detected_by=sorted(p for p, v in res.items() if v["rc"] == 1),
         source="written by an independent sub-agent that saw only the property text and a scratch worktree"))
for sid, srcdir, n, what in CONTROLS:
    res = farm.get((srcdir, n), {})
    save(sid, srcdir, n, dict(id=sid, kind="control: behaviour-preserving change, no check may report a violation", what=what,
         checks_run={p: dict(rc=v["rc"], violations=v["violations"]) for p, v in res.items()}, false_alarms=sorted(p for p, v in res.items() if v["rc"] != 0),
         source="written by an independent sub-agent"), demo=False)
# round 1: refresh the stored patches against HEAD
for i in range(1, 26):
    sid = "S%02d" % i
    pth = os.path.join(V, "seeded", sid, "patch.diff")
    d, how = rebased_patch(pth)
    if d is None:
        print("!!", sid, "does not apply to HEAD any more")
        continue
    res = farm.get(("round1", i), {})
    if res:
        m = json.load(open(os.path.join(V, "seeded", sid, "meta.json")))
        m["detected_by_final_checks"] = sorted(p for p, v in res.items() if v["rc"] == 1)
        json.dump(m, open(os.path.join(V, "seeded", sid, "meta.json"), "w"), indent=1)
    if how != "as written":
        open(pth, "w").write(d)
        m = json.load(open(os.path.join(V, "seeded", sid, "meta.json")))
        m["patch_applies_to"] = "%s (%s)" % (head, how)
        json.dump(m, open(os.path.join(V, "seeded", sid, "meta.json"), "w"), indent=1)
        print(sid, how)
sh("git -C /repo worktree remove --force %s" % WT)
print("saved")
