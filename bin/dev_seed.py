#!/usr/bin/env python3
"""Development aid: apply a seeded change to /repo, run the given quick checks, undo the change.
usage: dev_seed.py <patch.diff> <Cxx> [<Cyy> ...]   (prints which checks raise a VIOLATION)"""
import json, os, subprocess, sys, time
patch = os.path.abspath(sys.argv[1])
props = sys.argv[2:]
V = os.path.dirname(os.path.dirname(os.path.abspath(__file__)))
st = subprocess.run(["git", "-C", "/repo", "status", "--porcelain", "--untracked-files=no"], capture_output=True, text=True).stdout.strip()
if st:
    sys.exit("refusing: /repo has uncommitted changes:\n" + st)
r = subprocess.run(["git", "-C", "/repo", "apply", patch], capture_output=True, text=True)
if r.returncode != 0:
    sys.exit("patch does not apply: " + r.stderr)
res = {}
try:
    for p in props:
        t0 = time.time()
        q = subprocess.run(["python3", os.path.join(V, "bin", "check.py"), p, "--tier", os.environ.get("TIER", "quick")], capture_output=True, text=True, cwd=V)
        viol = [l for l in q.stdout.splitlines() if l.startswith("VIOLATION")]
        res[p] = dict(rc=q.returncode, violations=len(viol), first=(viol[0][:230] if viol else ""), wall=round(time.time() - t0, 1),
                      tool_error=(q.stderr.strip().splitlines()[-1][:200] if q.returncode == 2 else ""))
        print(p, json.dumps(res[p]), flush=True)
finally:
    subprocess.run(["git", "-C", "/repo", "checkout", "--", "."], check=True)
