#!/usr/bin/env python3
"""Development aid: store confirmed seeded changes under /verif/seeded/<id>/ (patch.diff, demonstration, meta.json)."""
import json, os, shutil, sys
V = os.path.dirname(os.path.dirname(os.path.abspath(__file__)))
SEEDS = [
 # id, dir, n, property, site, needs, detected_by
 ("S01", "wt_C01", 1, "C01", "generate_conditions.rs generate_condition_ex: operator mirrored wrongly (Lte -> Gt) when operands are swapped", "a constant on the left of > (or <= in a loop tail) and both values equal at run time", ["C01", "C15"]),
 ("S02", "wt_C01", 2, "C01", "generate_assign.rs: flags belief kept after the high-byte store of a 16-bit assignment", "16-bit variable assigned by LDA/STA and truth-tested immediately; value with high byte 0 and non-zero low byte", ["C01"]),
 ("S03", "wt_C02", 1, "C02", "assemble.rs optimize: INC/DEC no longer clears the belief that X holds the operand", "X = v; v++ (or v--); X = v with nothing in between", ["C02", "C01"]),
 ("S04", "wt_C02", 2, "C02", "assemble.rs optimize: obvious-CMP rule ignores `protected` on the BEQ of a > test", "A holds a known constant, a non-negated > test (inside ||), and a carry left by earlier code that differs", ["C02"]),
 ("S05", "wt_C03", 1, "C03", "assemble.rs check_branches: far BCC followed by BEQ to ANOTHER label taken for a <= pair", "an out-of-range BCC directly followed by a BEQ with a different operand, Z = 1", ["C03"]),
 ("S06", "wt_C03", 2, "C03", "generate_asm.rs asm: zero-page,Y operands declared 2 bytes for every mnemonic", "Y-indexed non-LDX/STX accesses between a branch and its target, declared distance <= 127 but real distance above", ["C03", "C04"]),
 ("S07", "wt_C04", 1, "C04", "generate_asm.rs asm: zero-page array of shorts / pointers indexed by Y declared 2 bytes", "a zero-page array of short indexed by Y, accessed by anything but LDX/STX", ["C04"]),
 ("S08", "wt_C04", 2, "C04", "assemble.rs append_code: renamed branch/JMP of inlined code gets nb_bytes 2 (JMP is 3)", "a call of an inline function whose body keeps a JMP (loop, if/else, early return)", ["C04"]),
 ("S09", "wt_C04", 3, "C13", "generate_conditions.rs: label counter not advanced after .ifstartN in a negated ||", "|| whose left operand is a 16-bit ==, > or <= comparison, or whose right operand is a parenthesised ||", ["C13"]),
 ("S10", "wt_C06", 1, "C06", "cpp.rs process: line counter bumped once per splice group instead of once per continuation line", "a splice of three or more physical lines before the defect", ["C06"]),
 ("S11", "wt_C06", 2, "C06", "compile.rs syntax_error: line computed with lines().count(), which drops a trailing empty line", "the offending token in column 1 of a line other than the first", ["C06"]),
 ("S12", "wt_C06", 3, "C07", "cpp.rs #elif: Skip treated like Inactive", "#if 1 / #elif 0 / #elif 1, or an #if..#elif 1 nested in an unselected region", ["C07"]),
 ("S13", "wt_C06", 4, "C07", "cpp.rs #ifndef: nested group in a non-active region goes Inactive instead of Skip", "an #ifndef group with #else or #elif nested inside an unselected region", ["C07"]),
 ("S14", "wt_C07", 1, "C08", "cpp.rs: leading \\b dropped from the function-like macro regex", "a function-like macro whose name is a proper suffix of another called identifier", ["C08"]),
 ("S15", "wt_C07", 2, "C09", "cpp.rs: literal numbering incremented only when Active, text pushed always", "a string literal inside an inactive conditional block followed by a literal in active code", ["C09"]),
 ("S16", "wt_C07", 3, "C10", "compile.rs calculator: shift and additive precedence levels swapped", "a shift and + or - in one unparenthesised constant expression", ["C10"]),
 ("S17", "wt_C07", 4, "C11", "cpp.rs: comment stripping order reversed (/* searched before //)", "/* inside a // comment", ["C11"]),
 ("S18", "wt_C12", 1, "C12", "generate_statements.rs: callee recorded in the call tree only when it is not inline", "an inline function that calls a function nothing else reaches", ["C12"]),
 ("S19", "wt_C12", 2, "C12", "generate_asm.rs compute_functions_actually_in_use: only one interrupt handler is a root", "two or more interrupt handlers, each calling its own helper", ["C12"]),
 ("S20", "wt_C12", 3, "C14", "generate_statements.rs: flags belief not reset after an inline expansion", "X = a; clr(); if (X) r = 1; with an inline clr() that leaves other flags", ["C14", "C01"]),
 ("S21", "wt_C12", 4, "C15", "generate_conditions.rs generate_if: saved_flags taken before the condition is generated", "if with else, tracked flags from the statement before, condition on something else, else body testing the first value", ["C15", "C01"]),
 ("S22", "wt_C14", 1, "C05", "compile.rs: a repeated prototype is re-inserted; the next new function gets the same order value", "the same prototype declared twice plus a function first declared after the second occurrence", ["C05"]),
 ("S23", "wt_C14", 2, "C16", "compile.rs parse_sizeof: lookup replaced by get_variable().unwrap()", "sizeof(NAME) in a constant context where NAME is unknown", ["C16"]),
 ("S24", "wt_C14", 3, "C17", "generate_asm.rs asm: STY dropped from the store list of the superchip offset rule", "Y stored directly into a superchip scalar or constant-indexed element", ["C17"]),
 ("S25", "wt_C14", 4, "C18", "generate_statements.rs csleep(8): PHA; PLA; NOP (9 cycles) instead of four NOPs", "csleep(8) only", ["C18"]),
]
conf = {}
for l in open(os.path.join(V, "work", "seed_confirm.log")):
    try:
        o = json.loads(l)
        conf[(os.path.basename(o["dir"]), str(o["n"]))] = o
    except ValueError:
        pass
results = json.load(open(os.path.join(V, "work", "seed_detect.json"))) if os.path.exists(os.path.join(V, "work", "seed_detect.json")) else {}
for sid, d, n, prop, site, needs, det in SEEDS:
    out = os.path.join(V, "seeded", sid)
    os.makedirs(out, exist_ok=True)
    shutil.copy("/tmp/%s/patch_%d.diff" % (d, n), os.path.join(out, "patch.diff"))
    shutil.copy("/tmp/%s/demo_%d.rs" % (d, n), os.path.join(out, "demo.rs"))
    c = conf.get((d, str(n)), {})
    meta = dict(id=sid, breaks_property=prop, site=site, needs_to_manifest=needs,
                confirmed_in_scratch_worktree=dict(applies=c.get("applies"), suite_with_patch=c.get("suite_with_patch"), demo_with_patch=c.get("demo_with_patch"),
                                                   demo_without_patch=c.get("demo_without_patch"), demo_pasted_into=c.get("demo_in"),
                                                   commands=["git apply patch.diff", "cargo test --offline --lib (166 passed)", "paste demo.rs into the tests module; cargo test --offline --lib <demo name> (fails)",
                                                             "git checkout -- .; same demo (passes)"]),
                checks_run=results.get(sid, {}), detected_by=[p for p in det if results.get(sid, {}).get(p, {}).get("rc") == 1] if results.get(sid) else det,
                source="written by an independent sub-agent that saw only the property text and a scratch worktree")
    json.dump(meta, open(os.path.join(out, "meta.json"), "w"), indent=1)
print("saved", len(SEEDS))
