#!/usr/bin/env python3
"""Development aid: compile source texts through the harness and print status / error / main's code.
usage: dev_probe.py [-O0|-O1 ...] <file.c | 'source text'> ..."""
import json, os, sys
sys.path.insert(0, os.path.join(os.path.dirname(os.path.abspath(__file__)), "..", "lib"))
from vf import common
args = [a for a in sys.argv[1:] if a.startswith("-")] or ["-O1"]
srcs = [a for a in sys.argv[1:] if not a.startswith("-")]
cases = []
for i, s in enumerate(srcs):
    if os.path.exists(s):
        s = open(s).read()
    cases.append(dict(id=i, src=s.replace("\\n", "\n"), variants=[dict(name="v", args=args)]))
obs = common.run_harness("compile", cases, "probe", nproc=1)
for c, ob in zip(cases, obs):
    o = ob[0] if ob else {"status": "missing"}
    print("=== %r -> %s" % (c["src"][:80], o.get("status")), {k: o[k] for k in ("err", "panic", "msg", "display") if k in o})
    for f in o.get("funcs", []):
        print(" ", f["name"], "size", f.get("size"))
        for l in f["lines"]:
            if l["k"] == "i":
                print("      %s %s" % (l["mn"], l["op"]))
            elif l["k"] == "l":
                print("   %s:" % l["name"])
            elif l["k"] == "a":
                print("      <asm %r %s>" % (l["text"], l.get("nb")))
    if "vars" in o and os.environ.get("VARS"):
        print("  vars:", json.dumps(o["vars"])[:1500])
