#!/usr/bin/env python3
"""Development aid (never run by a registered check): evaluate seeded changes in parallel WITHOUT touching /repo.
Each slot is a private copy of /verif (no work/, no .git) plus a private git worktree of /repo under /tmp/vf_slot_<k>;
the slot's harness depends on the slot's worktree.  A job is "patch.diff Cxx Cyy ...": the patch is applied to the slot's
worktree, the quick checks are run from the slot's copy, the worktree is restored.
usage: dev_seedfarm.py <jobs.txt> <results.ndjson> [slots=3]     (setup is redone on every call: the copy must be current)"""
import json, os, shutil, subprocess, sys, threading, time, queue
V = os.path.dirname(os.path.dirname(os.path.abspath(__file__)))
jobs = [l.split() for l in open(sys.argv[1]) if l.strip() and not l.startswith("#")]
out = sys.argv[2]
nslots = int(sys.argv[3]) if len(sys.argv) > 3 else 3
sh = lambda cmd, **k: subprocess.run(cmd, shell=True, capture_output=True, text=True, **k)


def setup(k):
    root = "/tmp/vf_slot_%d" % k
    sh("git -C /repo worktree remove --force %s/repo" % root)
    shutil.rmtree(root, ignore_errors=True)
    os.makedirs(root)
    r = sh("git -C /repo worktree add --detach %s/repo HEAD" % root)
    assert r.returncode == 0, r.stderr
    vv = root + "/verif"
    os.makedirs(vv)
    for d in ("bin", "lib", "spec", "harness", "known_findings.json", "properties.jsonl"):
        src = os.path.join(V, d)
        if os.path.isdir(src):
            shutil.copytree(src, os.path.join(vv, d), symlinks=True, ignore=shutil.ignore_patterns("__pycache__"))
        else:
            shutil.copy(src, vv)
    os.makedirs(vv + "/work/cache")
    os.makedirs(vv + "/evidence")
    sh("cp -r %s/work/cache/. %s/work/cache/" % (V, vv))
    ct = open(vv + "/harness/Cargo.toml").read().replace('path = "/repo"', 'path = "%s/repo"' % root)
    open(vv + "/harness/Cargo.toml", "w").write(ct)
    return root


lock = threading.Lock()
q = queue.Queue()
for j in jobs:
    q.put(j)


def worker(k):
    root = setup(k)
    env = dict(os.environ, VERIF_REPO_DEV_ONLY=root + "/repo")
    while True:
        try:
            j = q.get_nowait()
        except queue.Empty:
            break
        patch, props = os.path.abspath(j[0]), j[1:]
        rec = dict(patch=patch, results={})
        r = sh("git -C %s/repo apply %s" % (root, patch))
        if r.returncode != 0:
            r = sh("git -C %s/repo apply -3 %s" % (root, patch))     # the tree has moved on since the patch was written
            sh("git -C %s/repo reset -q" % root)
        if r.returncode != 0 or "with conflicts" in r.stderr:
            sh("git -C %s/repo checkout -- ." % root)
        if r.returncode != 0 or "with conflicts" in r.stderr:
            rec["error"] = "patch does not apply: " + r.stderr[:300]
        else:
            for p in props:
                t0 = time.time()
                c = subprocess.run(["python3", root + "/verif/bin/check.py", p, "--tier", "quick"], capture_output=True, text=True, cwd=root + "/verif", env=env)
                viol = [l for l in c.stdout.splitlines() if l.startswith("VIOLATION")]
                rec["results"][p] = dict(rc=c.returncode, violations=len(viol), first=(viol[0][:300] if viol else ""), wall=round(time.time() - t0, 1),
                                         tool_error=(c.stderr.strip().splitlines()[-1][:300] if c.returncode == 2 and c.stderr.strip() else ""))
            sh("git -C %s/repo checkout -- ." % root)
        with lock:
            open(out, "a").write(json.dumps(rec) + "\n")
            print(os.path.basename(os.path.dirname(patch)), os.path.basename(patch), {p: (v["rc"], v["violations"]) for p, v in rec["results"].items()}, rec.get("error", ""), flush=True)
    sh("git -C /repo worktree remove --force %s/repo" % root)
    shutil.rmtree(root, ignore_errors=True)


ts = [threading.Thread(target=worker, args=(k,)) for k in range(1, nslots + 1)]
for t in ts:
    t.start()
for t in ts:
    t.join()
