#!/usr/bin/env python3
"""Regenerates MANIFEST.json from the table below (kept here so that the manifest stays valid and in sync)."""
import json, os, subprocess
V = os.path.dirname(os.path.dirname(os.path.abspath(__file__)))
props = [json.loads(l) for l in open(os.path.join(V, "properties.jsonl"))]
TV, MC, EX = "translation_validation", "model_checking", "exploration"
CHECKS = {
 "C01": (TV, "TLC refinement check: M6502 execution of emitted code vs CSem source semantics (SrcEval+Refine); FlagProv.tla validates the traces of hook H3 (the generator's belief about the flags wherever it relies on it), unjustified beliefs direct a second, denser execution", "6.C01",
         "Per generated program (GenProg.tla families, exhaustive in the thorough tier) TLC executes the code the real compiler emitted on the 6502 specification from boundary inputs x 2 ambient configurations and compares the halted state with the state the CSem specification prescribes; an alarm means no reading of the C dialect gives the observed result. Bounded to the generated vocabulary and inputs.",
         "Trusted: TLC, M6502/Enc6502/CSem (self-tested by ASSUMEs), harness renderer/linker/layout. Known defect classes are attributed by program shape (known_findings.json)."),
 "C02": (TV, "TLC sequential-product refinement: -O0 code vs -O1/-O2/-O3 code on M6502 (Refine pair mode; final state, io log and the accesses of protected instructions); Peephole.tla (optimize() as coded) model-checked and replayed into the real optimize()", "6.C02",
         "Each generated program is compiled at -O0..-O3; Refine.tla runs the -O0 code to completion, resets the machine with the optimised code on the same input and requires equal variables, X, Y, io log, faults and termination. Independent of the source semantics.",
         "Trusted: TLC, M6502/Enc6502, harness linker/layout."),
 "C03": (MC, "TLC: GenLayout enumeration -> check_branches via API -> Asm.tla ranges + Refine.tla path equality for all N/Z/C; BranchFix.tla (check_branches as coded) model-checked and replayed into the real check_branches()", "6.C03",
         "All layouts of the GenLayout families (8 branch kinds incl. both <= pairs, forward/backward, displacements around the limit, three filler styles incl. inline size hints, cascades, shared labels) are repaired by the real check_branches(); Asm.tla measures every displacement with true encoding sizes; Refine.tla executes ideal and repaired code from all 8 N/Z/C states and compares paths.",
         "Trusted: TLC, Enc6502 sizes, M6502; layouts are driven through the public AssemblyCode API."),
 "C04": (MC, "TLC: Asm.tla two-pass assembler model over every emitted function (true Enc6502 sizes vs size_bytes)", "6.C04",
         "Every function emitted for the corpus (GenProg sample x placements zero page/ramchip/superchip/3E/3E+ x -O0/-O1, label-stress programs) is consumed line by line by Asm.tla; the sum of true sizes must equal the reported size.",
         "Trusted: Enc6502 table (self-checked), dasm's zero-page selection rule as modelled by ResolveMode, harness layout (non-zero-page classes >= $100)."),
 "C05": (EX, "repeated compilation histories (in-process repeats interleaved with other programs, fresh processes) validated by TLC against Determinism.tla", "6.C05",
         "36 programs built around what can leak hash order (0-5 string literals in one call / initialiser list / function, up to 40 variables and functions, inline functions, interrupt handlers, shadowed locals, macro strings) x 4 option sets, each compiled twice per process in shuffled interleaving, in 16 (quick) / 64 (thorough) fresh processes; the digest of the complete observable result must be a function of (source, options). Exploration: a two-way hash-order leak escapes with probability < 2^-30.",
         "stdout diagnostics are not captured; the harness's own builder replaces the product-specific writer."),
 "C06": (MC, "TLC: GenLoc generator with origin rule; replay of (line-shifting prefix x error kind x placement) into the real compiler", "6.C06",
         "GenLoc.tla enumerates prefixes (<=3 quick, <=4 thorough) of 17 line-shifting constructs followed by one of 16 error kinds (preprocessor, parser, parse-time semantic, code generation) in the main file or an included header, with LF and CR-LF line ends, and computes the physical origin; the Error returned by compile() must carry that file, line (any physical line of a spliced logical line) and including file/line.",
         "Trusted: renderer of items (asserted to produce the stated line counts). Columns are not checked."),
 "C07": (MC, "TLC: GenCond generator + CppRef reference semantics, replay into the real preprocessor (hook H2); CppImpl==CppRef invariant; CppTrace trace validation", "6.C07",
         "GenCond.tla enumerates every well-nested directive sequence up to the bound (exhaustive over the minimal condition alphabet, simulated over the rich one) together with the outcome the reference semantics CppRef prescribes (kept lines, final macro table, #error); each is run through the real preprocessor and compared. TLC also checks, on every sequence, that the implementation-shaped three-state machine CppImpl equals CppRef, and validates recorded H2 event traces against CppImpl.",
         "Trusted: TLC, CppRef (first-true-branch rule), renderer of directive lines. Condition operators limited to those the property names."),
 "C09": (MC, "TLC: GenLit generator + Lexer.tla decoding oracle; replay of literals in nine contexts into the real compiler", "6.C09",
         "GenLit.tla enumerates literal bodies (all bodies of <=2 symbols quick, <=3 thorough) over Lexer.tla's alphabet - every escape of the property, escaped quotes/backslashes, comment markers, #, @, macro names - in thirteen contexts (initialiser, pointer table, adjacent concatenation, call argument, two calls, array subscript, asm, two per line, after code/before comment, inside #if, after a skipped region, after #else, character constant); the stored bytes must equal Lexer!LiteralBytes. GenLitShape.tla: up to 3/4 literals inside one expression in every arrangement of parentheses, subscripts, call arguments and binary operators (depth 3) in three statement contexts: each literal stored once with its own bytes. CppScan.tla (the scanner that extracts literals, as coded; see C11): the literals extracted from every text of up to 6/7 characters must be the textbook scanner's.",
         "Trusted: Lexer.tla symbol table (self-tested), renderer. Literals the compiler refuses are not judged."),
 "C08": (MC, "TLC: GenMacro generator + MacroRef token-level expansion oracle; replay into the real preprocessor (hook H2)", "6.C08",
         "GenMacro.tla enumerates ordered subsets of nine definitions (object-like, function-like with 0-3 parameters, bodies using earlier macros, parameter names occurring inside longer identifiers), #undef/redefinition tails, source vs -D origin, 0-198 filler macros around the 100-macro chunk boundaries, and 45 use sites; the preprocessed token sequence must equal MacroRef!Expand for a tight and a spaced rendering.",
         "Trusted: MacroRef (self-tested), token splitter of the driver. No # / ## / variadics / recursion (outside the property)."),
 "C10": (MC, "TLC: GenCalc generator + Calc.tla C-grammar evaluator; replay of constant expressions in five constant positions into the real compiler", "6.C10",
         "GenCalc.tla enumerates token strings (all ordered pairs of the 17 binary operators over six literal triples, both parenthesisations, unary operators in every operand position, chains, nested ?:, hex/octal/character literals, overflow and division-by-zero edges) with the value Calc.tla assigns; each is compiled in initialiser, array size, array element, aligned() and asm size position. Values that fit must be exact; division by zero and >31-bit values must be errors; never a crash.",
         "Trusted: Calc.tla (self-tested). >> of negatives and shift counts >= 16 are not decided; 17..31-bit values may be rejected or exact."),
 "C11": (MC, "TLC: GenDecor generator with Lexer.tla neutrality invariant; plain vs decorated compilation compared, differences decided by Refine.tla on M6502; Layer-2 model CppScan.tla of the scanner as coded, model-checked against the textbook scanner and replayed into cpp::process", "6.C11",
         "GenDecor.tla enumerates (program, gap between two adjacent tokens, decoration) over 21 decorations (spaces, tabs, newlines, CR-LF, splices, block and line comments containing quotes, //, /*, directives, URLs) and checks with the reference scanner of Lexer.tla that each is token-neutral; plain and decorated programs (corpus: GenProg samples and the repository's own test inputs) are compiled at -O0/-O1, and plain programs with --insert-code / -W all: declared variables, functions and emitted instruction lines must be equal; where emitted text differs, both codes are executed by TLC on M6502. CppScan.tla: every text of up to 6/7 characters over {name char, space, /, *, \", \\, ', line feed}: emitted text, literals and comment state of the scanner as coded equal the textbook scanner's outside three named deviation classes; the texts are preprocessed by the real code and compared with both.",
         "Trusted: token splitter choosing the gaps; gaps inside directive lines are not decorated."),
 "C12": (MC, "TLC: GenGraph generator + CallGraph.tla predicates (work-list reachability) over the published tree / in-use set / emitted JSRs", "6.C12",
         "GenGraph.tla enumerates acyclic call graphs over main,f1,f2,f3 with every call in a syntactic position (statement, condition, argument, loop body, return, ternary, switch case) and attributes (inline subsets, interrupt handler, unused function, prototypes first); CallGraph.tla checks: every source call is in the tree, every emitted JSR is reachable through it, in-use = Reach(tree, main + interrupts) exactly and covers the source-reachable set.",
         "Trusted: driver's rendering of call sites; one site per (caller, callee)."),
 "C14": (TV, "TLC sequential-product refinement: non-inline code vs code with subsets of the callees declared inline (Refine pair mode); Inline.tla (append_code as coded) model-checked and replayed into the real append_code()", "6.C14",
         "Programs with calls (arguments, results inside larger expressions, nested calls; callee bodies with loops, early returns, switch, locals, further calls) are compiled with no function inline and with subsets of the called functions inline; Refine.tla runs both from the same inputs and requires equal final variables, X, Y, faults and termination.",
         "Trusted: TLC, M6502, harness linker (inline bodies are expanded by the compiler; templates are not linked)."),
 "C15": (TV, "TLC sequential-product refinement of program pairs generated by the nine rewrite rules (GenProg RW family)", "6.C15",
         "GenProg.tla's RW family enumerates pairs related by: commuting + & | ^, x op= e vs x = x op e, ++x/x++ vs x += 1, if(c) A else B vs if(!c) B else A, a<b vs b>a, for vs while, switch vs if-chain, register index vs constant index, call vs body in place; both forms are compiled and executed by TLC on M6502 from the same inputs; final states must be equal. A refused form leaves the pair undecided.",
         "Trusted: TLC, M6502. Differences explained by a shape C01 lists as miscompiled are attributed to that finding."),
 "C17": (TV, "TLC refinement with split-port memory classes in M6502 (faults on wrong-port access / RMW) + CSem final state", "6.C17",
         "GenProg programs compiled with feature atari2600 and subsets of the variables declared superchip, or bank-resident RAM under 3E / 3E+; M6502's memory model raises a fault for a read through a write port, a write through a read port and any read-modify-write on either; the final state must equal what CSem prescribes; a control group of ordinary placements is included.",
         "Trusted: split-port address windows as laid out by the harness (superchip: write $1000, read +$80; 3E: read $1000, write +$400; 3E+: write +$200)."),
 "C18": (TV, "TLC refinement: io log of M6502 vs explicit accesses prescribed by CSem, all -O levels pairwise (also the memory accesses of every instruction marked protected, whatever cell it touches); csleep cycle difference by Enc6502 cycle table", "6.C18",
         "FX: sequences of load/store/strobe/asm/csleep and ordinary statements (also inside if and for) at -O0/-O1/-O2: the sequence of accesses to the port cells (order, direction, value) executed by the 6502 model must equal what CSem prescribes, and the levels must agree. FS: csleep(n) for n = 0..12 in four contexts against the same program without it: exactly n cycles more, identical final state (A preserved between load and store).",
         "Trusted: Enc6502 cycle table (no page-cross penalty), asm menu meanings. Built with feature atari2600."),
 "C16": (EX, "systematic token-level mutation of the repository's own test inputs; every recorded outcome validated by TLC against Outcome.tla", "6.C16",
         "About 24 000 (quick) near-valid programs: each C source the repository's tests compile (read from src/lib.rs at run time) and eight own programs, mutated at token level (delete, duplicate, swap, replace/insert from a 130-entry menu of keywords, operators, malformed and out-of-range literals, quotes, directives, self-referential macros, deep nesting), under five option sets, each compiled in a child process with a deadline; TLC accepts an outcome iff it is a result or a located/structured error. Exploration, not a proof of totality.",
         "8 MB stack, 2.5 s deadline. Crash findings are identified by source file and panic message."),
 "C13": (MC, "TLC: Asm.tla legality/label acceptance over every emitted function", "6.C13",
         "Every emitted function of the corpus (as C04, plus label-stress programs: repeated/nested inlining, goto labels, loops and early returns in inlined code, long-branch repair) must use only (mnemonic, mode) pairs of the 6502, define each label once and define every reference.",
         "Trusted: Enc6502 table, harness operand splitter. Inline-function bodies are templates and are judged only where expanded."),
}
PENDING = set()
NA_REASON = "check not built yet (work in progress; see DESIGN.md section 6)"
m = {"version": 1,
     "setup_cmd": "cd /verif && python3 bin/setup.py",
     "hooks": {"guard": "cc6502_verif", "enable": "--cfg cc6502_verif --cfg cc6502_verif_trace --cfg cc6502_verif_flags via /verif/harness/.cargo/config.toml rustflags (the harness builds /repo as a path dependency with the hooks on; cc6502_verif guards H1 verif_lines and verif::preprocess, cc6502_verif_trace the per-line event log of cpp::process (H2), cc6502_verif_flags the log of the places where the code generator relies on its belief about the processor flags (H3); the harness drops H2 and H3 automatically if they no longer compile)",
               "baseline_off_cmd": "cd /repo && cargo test --workspace --no-fail-fast --offline", "source_commits": ["c1a4399", "c761bf0", "0b01983"], "add_only": True},
     "engines": [{"name": "tlc", "path": "/opt/veriftools/tla/tla2tools.jar", "serves_properties": sorted(CHECKS), "kind_free_text": "TLA+ specifications under /verif/spec checked by TLC; bound to the code by replay (generator specs -> real compiler) and validation (emitted artefacts / hook traces -> oracle specs)"},
                 {"name": "vharness", "path": "/verif/harness", "serves_properties": sorted(CHECKS), "kind_free_text": "Rust batch driver on the public API of /repo (path dependency, hooks H1/H2 behind cfg cc6502_verif)"}],
     "checks": [], "not_applicable": [],
     "notes": "python3 bin/check.py <id> --tier quick|thorough; exit 0/1/2 = held / VIOLATION / tool failure. Known findings: known_findings.json."}
for p in props:
    pid = p["id"]
    if pid in CHECKS and pid not in PENDING:
        lvl, tech, ref, text, note = CHECKS[pid]
        m["checks"].append({"property_id": pid, "quick_cmd": "python3 bin/check.py %s --tier quick" % pid,
                            "thorough_cmd": "python3 bin/check.py %s --tier thorough" % pid, "evidence_file": "/verif/evidence/%s.json" % pid,
                            "replay_cmd_template": "python3 bin/check.py %s --replay {path}" % pid, "engine": "tlc",
                            "level_claimed": {"category": lvl, "text": text, "design_ref": "DESIGN.md " + ref}, "level_note": note, "technique": tech})
    else:
        m["not_applicable"].append({"property_id": pid, "reason": NA_REASON})
json.dump(m, open(os.path.join(V, "MANIFEST.json"), "w"), indent=1)
print("checks:", [c["property_id"] for c in m["checks"]])
