#!/usr/bin/env python3
"""Development aid: merges reviewed baseline signatures (work/baseline_*.json) into known_findings.json."""
import json, os, sys, re
V = os.path.dirname(os.path.dirname(os.path.abspath(__file__)))
pid = sys.argv[1]
files = sys.argv[2:]
CLASSES = {
 "KF-C01-hi16": "a 16-bit destination assigned (not compound-assigned) a shift, !, ~, comparison, logical, ternary or call result: the high-byte pass repeats the 8-bit computation and stores garbage in the high byte",
 "KF-C01-reg-sub16": "16-bit destination = register - constant or constant - register: the high byte is constant-folded without the borrow",
 "KF-C01-test16-lowbyte": "! and the truth test of a 16-bit array element look at the low byte only",
 "KF-C01-postinc-index": "R = arr[R]++ / R = arr[R]--: the deferred increment is applied after R was overwritten, to the wrong element",
 "KF-C01-cmp-zero": "comparison of an unsigned operand with the constant 0 (<, >=, >, <=; also as loop condition): sign flag used, or no branch emitted for > 0",
 "KF-C01-cmp-signed-mixed": "signed and mixed-width comparisons: decided from the sign of the 8/16-bit difference without overflow handling; char operand zero-extended",
 "KF-C01-cmp-16bit": "unsigned 16-bit > and <= decided from the sign of the difference",
 "KF-C01-cmp-elem-reg": "array element compared with the register that indexes/holds the other operand: emitted TXA;STA cctmp;CPX cctmp compares the register with itself",
 "KF-C01-two-calls": "two function results in one expression: the first result, returned in A, is not kept live across the second call",
 "KF-C01-deref-y": "*p in a statement whose other operand is indexed by Y (or is *p / p[Y] itself): the dereference loads Y with 0 after saving it in cctmp, and the saved index is restored too late or not at all",
 "KF-C01-opt-shift-mem": "R = s; s <<= 1 (or >>= 1); R = s at -O1: ASL/ROL/LSR/ROR on memory do not invalidate the optimiser's belief that the register holds s; the reload is removed (also C02)",
 "KF-C01-postinc-in-condition": "a postfix ++ / -- inside the condition of if / while / do-while or the selector of a switch is postponed to the start of the next generated statement, which lies on only one of the paths: on the other path the variable is never updated (while (b--) leaves b one short, if (a++ == 3) increments a only when the test holds)",
 "KF-C01-return-postfix": "return v++ / return arr[x]--: the postponed increment is emitted after the RTS (or after the jump to the end of an inlined body) and never happens; a callee that indexes an array by a parameter also leaves its scratch index in Y",
 "KF-C01-pha-unbalanced": "x = (a op b) op (R | 0): the left result is pushed (PHA) while the right operand is computed, the folded R | 0 never pulls it: the stack is left unbalanced and RTS returns to a garbage address",
 "KF-C01-else-flags-after-and": "if (p && q) ... else if (r): the else branch is entered from two jumps (p false, q false) but trusts the flags belief saved for only one of them: r is decided on stale flags",
 "KF-C01-varindex-16": "an element of an array of shorts indexed by a variable (sarr[a] = v, <<=): the high byte is stored at the wrong place or not at all",
 "KF-C01-varindex-8": "arr[b] = arr[R] / P[R] / ROM[R] (destination indexed by a variable, source by a register): loading the destination index clobbers the register the source still needs",
 "KF-C01-shift16-elem": "compound shift (<<=, >>=) of an element of an array of shorts with a constant or register index: only the low byte is shifted, the high byte is left unchanged",
 "KF-C01-stale-flags-shift16": "after a 16-bit shift statement the generator still believes the flags describe the previously tested variable; the following if/! uses stale flags",
}


def classify(sig, fam):
    if fam == "FW":
        return "KF-C01-hi16"
    if fam == "F1a":
        return "KF-C01-reg-sub16"
    if fam == "F7d" and re.match(r"A16\[R\] = (\(\*P\)|P\[|A8\[u8\])", sig):
        return "KF-C01-deref-y"
    if fam in ("F1c", "F2b", "F7d"):
        return "KF-C01-test16-lowbyte"
    if fam == "F1e":
        return "KF-C01-postinc-index"
    if fam in ("F2z", "F3a"):
        return "KF-C01-cmp-zero"
    if fam == "F2s":
        return "KF-C01-cmp-signed-mixed"
    if fam in ("F1f", "F2a"):
        if "u16" in sig:
            return "KF-C01-cmp-16bit"
        if re.search(r"(A8|ROM)\[R\] (<=|>=|==|!=|<|>) R", sig):
            return "KF-C01-cmp-elem-reg"
        return None
    if fam in ("F5a", "F5b", "F5c", "F5d", "F6") and ("ri(" in sig or "rd2(" in sig):
        return "KF-C01-return-postfix"
    if fam == "F3e":
        return "KF-C01-postinc-in-condition"
    if fam == "F1n":
        return "KF-C01-pha-unbalanced" if "(R | 0)" in sig else None
    if fam == "F2e":
        return "KF-C01-cmp-zero" if re.search(r"u8 (<|<=|>=|>) 0\)", sig) else None
    if fam == "F2d":
        return "KF-C01-else-flags-after-and"
    if fam == "F9" and sig.startswith("A16[u8]"):
        return "KF-C01-varindex-16"
    if fam == "F9" and sig.startswith("A8[u8]"):
        return "KF-C01-varindex-8"
    if fam == "F5b":
        return "KF-C01-two-calls"
    if fam == "F9":
        if re.search(r"A16\[\w+\] (<<|>>)= \d", sig):
            return "KF-C01-shift16-elem"
        return "KF-C01-deref-y" if ("(*P)" in sig or "P[" in sig) else None

    if fam == "F8":
        return "KF-C01-opt-shift-mem" if re.search(r"u16 (<<|>>)= 1", sig) else None
    if fam == "F7b":
        return "KF-C01-stale-flags-shift16"
    if fam == "FT":
        if sig.startswith("u16 ="):
            return "KF-C01-hi16"
        return "KF-C01-cmp-signed-mixed" if re.search(r"s8\) < 5\)", sig) else None
    if fam == "F5d":
        return "KF-C01-cmp-signed-mixed" if "sgn(" in sig else None
    if fam == "F5h":
        return "KF-C01-cmp-signed-mixed" if re.search(r"if \(s8 < 3\)", sig) else None
    return None


PROP_OF = lambda cid: pid
kf = json.load(open(os.path.join(V, "known_findings.json")))
byid = {f["id"]: f for f in kf["findings"]}
unclassified = []
for fn in files:
    for sg, e in json.load(open(fn)).items():
        cid = classify(sg, e["fam"])
        if cid == "DROP":
            continue
        if cid is None:
            unclassified.append((sg, e))
            continue
        f = byid.get(cid)
        if f is None:
            f = dict(id=cid, property=pid, status="open", what=CLASSES[cid], witness=None, signatures=[])
            kf["findings"].append(f)
            byid[cid] = f
        if sg not in f["signatures"]:
            f["signatures"].append(sg)
        if e.get("vars"):
            dv = f.setdefault("diffvars", {})
            dv[sg] = sorted(set(dv.get(sg, [])) | set(e["vars"]))
        if f["witness"] is None:
            f["witness"] = dict(source=e["example"]["src"], args=["-" + e["example"]["variant"]], input=e["example"]["input"], got_vs_want=e["example"]["diff"])
for f in kf["findings"]:
    if "signatures" in f:
        f["signatures"].sort()
json.dump(kf, open(os.path.join(V, "known_findings.json"), "w"), indent=1)
print("unclassified:", len(unclassified))
for sg, e in unclassified[:40]:
    print("  ", e["fam"], sg, e["example"]["diff"])
print({f["id"]: len(f.get("signatures", [])) for f in kf["findings"]})
