#!/usr/bin/env python3
"""MANIFEST.setup_cmd: build both harness flavours offline, parse every specification, run the oracle self-tests."""
import os, subprocess, sys
sys.path.insert(0, os.path.join(os.path.dirname(os.path.abspath(__file__)), "..", "lib"))
from vf import common
try:
    common.build_harness("default")
    common.build_harness("atari2600")
    for mod in sorted(f[:-4] for f in os.listdir(common.SPEC) if f.endswith(".tla")):
        p = subprocess.run(["tla-sany", mod + ".tla"], cwd=common.SPEC, stdout=subprocess.PIPE, stderr=subprocess.STDOUT, text=True)
        if p.returncode != 0 or "Semantic errors" in p.stdout or "*** Errors" in p.stdout or "Fatal" in p.stdout:
            print(p.stdout[-2000:]); raise common.ToolError("SANY rejects " + mod)
    for st in ("MCM6502Self",):
        r = common.run_tlc(st, workers=1, heap="2g", name="self_" + st)
        common.require_ok(r, st)
    p = subprocess.run([sys.executable, os.path.join(os.path.dirname(os.path.abspath(__file__)), "selftest.py")], stdout=subprocess.PIPE, stderr=subprocess.STDOUT, text=True)
    print("\n".join(l for l in p.stdout.splitlines() if l.startswith(("selftest", "SELFTEST"))))
    if p.returncode != 0:
        raise common.ToolError("self-tests failed")
    print("setup ok")
except common.ToolError as e:
    print("SETUP FAILED:", e); sys.exit(2)
