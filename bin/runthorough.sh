#!/bin/sh
# development aid: run thorough tiers one after the other, log exit code and time
cd /verif
for p in "$@"; do
  s=$(date +%s)
  timeout 5400 python3 bin/check.py $p --tier thorough > work/thor_$p.out 2>&1
  rc=$?
  e=$(date +%s)
  echo "$p rc=$rc $((e-s))s viol=$(grep -c '^VIOLATION' work/thor_$p.out) known=$(grep -c '^KNOWN-FINDING' work/thor_$p.out)" >> work/thorough.log
done
